// check is the driver of every registered check:
//
//	bin/check <ID> [--tier quick|thorough] [--replay file]
//
// It rebuilds the simulation binary from /repo's current working tree
// (tag verif + generated overlay), spawns worker processes that execute
// seeds, classifies, minimises and re-confirms violations, compares them with
// known_findings.json, writes evidence/<ID>.json and exits 0 / 1 / 2.
package main

import (
	"bufio"
	"encoding/json"
	"flag"
	"fmt"
	"os"
	"os/exec"
	"path/filepath"
	"regexp"
	"runtime"
	"sort"
	"strconv"
	"strings"
	"sync"
	"time"
)

// ---- configuration (checks.json) ----

type ScenCfg struct {
	Name   string `json:"name"`
	Quick  int    `json:"quick"`  // runs in the quick tier
	Weight int    `json:"weight"` // share of the thorough budget
	Race   bool   `json:"race,omitempty"`
}

type CheckCfg struct {
	Property   string    `json:"property"`
	Level      string    `json:"level"`
	Scenarios  []ScenCfg `json:"scenarios"`
	Rule       string    `json:"rule"`
	Real       []string  `json:"real"`
	Stub       []string  `json:"stub"`
	Assume     []string  `json:"assumptions"`
	Exhaustive bool      `json:"exhaustive,omitempty"`
	QuickCapS  int       `json:"quick_cap_s,omitempty"`
	// AlsoReports: other properties whose violations in these scenarios are
	// reported by this check too (cross-cutting invariants).
	Only []string `json:"only,omitempty"`
}

type Finding struct {
	Property string `json:"property"`
	Status   string `json:"status"` // open | fixed
	Class    string `json:"class"`  // regexp matched against "property|kind|sig"
	What     string `json:"what"`
	Commit   string `json:"commit,omitempty"`
}

// ---- worker protocol (mirrors scen/worker_test.go) ----

type Violation struct {
	Property string `json:"property"`
	Kind     string `json:"kind"`
	Sig      string `json:"sig"`
	Detail   string `json:"detail"`
	Step     int    `json:"step"`
	SimTime  string `json:"sim_time"`
}

func (v Violation) Class() string { return v.Property + "|" + v.Kind + "|" + v.Sig }

type Result struct {
	Scenario   string         `json:"scenario"`
	Seed       uint64         `json:"seed"`
	Violations []Violation    `json:"violations,omitempty"`
	Steps      int            `json:"steps"`
	SimNanos   int64          `json:"sim_ns"`
	WallMicros int64          `json:"wall_us"`
	TraceHash  string         `json:"trace"`
	Nontrivial bool           `json:"nontrivial"`
	Probes     map[string]int `json:"probes,omitempty"`
	Faults     map[string]int `json:"faults,omitempty"`
	Sample     any            `json:"sample,omitempty"`
	PlanTape   []uint32       `json:"plan_tape,omitempty"`
	SchedTape  []uint32       `json:"sched_tape,omitempty"`
	TimedOut   bool           `json:"timed_out,omitempty"`
	StepsOut   bool           `json:"steps_out,omitempty"`
	Leaked     string         `json:"leaked,omitempty"`
	Info       map[string]any `json:"info,omitempty"`

	crashed  bool
	crashOut string
}

type Job struct {
	Property  string   `json:"property"`
	Scenario  string   `json:"scenario"`
	Seed      uint64   `json:"seed"`
	PlanTape  []uint32 `json:"plan_tape"`
	SchedTape []uint32 `json:"sched_tape"`
	Class     string   `json:"class,omitempty"`
	Detail    string   `json:"detail,omitempty"`
	Trace     string   `json:"trace,omitempty"`
}

var (
	verifDir string
	repoDir  string
	buildDir string
	goBin    = "go1.26.8"
)

func fatal2(format string, args ...any) {
	fmt.Fprintf(os.Stderr, "check: "+format+"\n", args...)
	os.Exit(2)
}

func goEnv() []string {
	env := os.Environ()
	env = append(env, "GOFLAGS=-mod=mod", "GOPROXY=off", "GOSUMDB=off", "GOTOOLCHAIN=local", "CGO_ENABLED=1")
	return env
}

func runCmd(dir string, name string, args ...string) error {
	c := exec.Command(name, args...)
	c.Dir = dir
	c.Env = goEnv()
	out, err := c.CombinedOutput()
	if err != nil {
		return fmt.Errorf("%s %s: %v\n%s", name, strings.Join(args, " "), err, out)
	}
	return nil
}

// build regenerates the overlay and compiles the worker binary.
func build(id string, race bool) string {
	if err := os.MkdirAll(buildDir, 0o755); err != nil {
		fatal2("%v", err)
	}
	ov := filepath.Join(buildDir, "overlay")
	if err := runCmd(verifDir, filepath.Join(verifDir, "bin", "overlaygen"), "-repo", repoDir, "-out", ov); err != nil {
		fatal2("overlay generation failed: %v", err)
	}
	mod, err := os.ReadFile(filepath.Join(verifDir, "go.mod"))
	if err != nil {
		fatal2("%v", err)
	}
	mods := strings.Replace(string(mod), "=> /repo", "=> "+repoDir, 1)
	modfile := filepath.Join(buildDir, "go.mod")
	os.WriteFile(modfile, []byte(mods), 0o644)
	sum, _ := os.ReadFile(filepath.Join(verifDir, "go.sum"))
	os.WriteFile(filepath.Join(buildDir, "go.sum"), sum, 0o644)
	bin := filepath.Join(buildDir, "scen.test")
	args := []string{"test", "-c", "-tags", "verif", "-vet=off", "-overlay", filepath.Join(ov, "overlay.json"), "-modfile", modfile, "-o", bin}
	if race {
		bin = filepath.Join(buildDir, "scen.race.test")
		args = []string{"test", "-c", "-race", "-tags", "verif verifrace", "-vet=off", "-overlay", filepath.Join(ov, "overlay.json"), "-modfile", modfile, "-o", bin}
	}
	args = append(args, "./scen")
	if err := runCmd(verifDir, goBin, args...); err != nil {
		fatal2("build failed: %v", err)
	}
	return bin
}

// ---- workers ----

type worker struct {
	bin   string
	cmd   *exec.Cmd
	in    *bufio.Writer
	inC   interface{ Close() error }
	out   *bufio.Scanner
	errb  *tailBuf
	alive bool
}

type tailBuf struct {
	mu   sync.Mutex
	head []byte // the first 256 KB (a panic message comes first, before a possibly huge goroutine dump)
	b    []byte // the last 512 KB of the rest
}

func (t *tailBuf) Write(p []byte) (int, error) {
	t.mu.Lock()
	n := len(p)
	if room := 1<<18 - len(t.head); room > 0 {
		k := min(room, len(p))
		t.head = append(t.head, p[:k]...)
		p = p[k:]
	}
	t.b = append(t.b, p...)
	if len(t.b) > 1<<20 {
		t.b = t.b[len(t.b)-(1<<19):]
	}
	t.mu.Unlock()
	return n, nil
}
func (t *tailBuf) String() string {
	t.mu.Lock()
	defer t.mu.Unlock()
	return string(t.head) + string(t.b)
}

var raceMode bool

func startWorker(bin string, extraEnv ...string) *worker {
	if raceMode {
		extraEnv = append(extraEnv, "VERIF_RACE=1", "GORACE=halt_on_error=1")
	}
	w := &worker{bin: bin}
	w.cmd = exec.Command(bin, "-test.run", "^TestWorker$", "-test.cpu", "1", "-test.timeout", "24h")
	w.cmd.Env = append(os.Environ(), "VERIF_SCEN=jobs", "VERIF_JOBS=1", "GOMAXPROCS=1", "GOTRACEBACK=all")
	w.cmd.Env = append(w.cmd.Env, extraEnv...)
	w.cmd.Dir = buildDir
	stdin, _ := w.cmd.StdinPipe()
	stdout, _ := w.cmd.StdoutPipe()
	w.errb = &tailBuf{}
	w.cmd.Stderr = w.errb
	w.in = bufio.NewWriter(stdin)
	w.inC = stdin
	w.out = bufio.NewScanner(stdout)
	w.out.Buffer(make([]byte, 1<<20), 1<<28)
	if err := w.cmd.Start(); err != nil {
		fatal2("cannot start worker: %v", err)
	}
	w.alive = true
	return w
}

func (w *worker) stop() {
	if !w.alive {
		return
	}
	w.inC.Close()
	done := make(chan struct{})
	go func() { w.cmd.Wait(); close(done) }()
	select {
	case <-done:
	case <-time.After(5 * time.Second):
		w.cmd.Process.Kill()
		<-done
	}
	w.alive = false
}

// run executes one job; a dead worker yields a crashed result.
func (w *worker) run(j Job, wallLimit time.Duration) Result {
	b, _ := json.Marshal(j)
	w.in.Write(b)
	w.in.WriteByte('\n')
	w.in.Flush()
	type lineOrEOF struct {
		line string
		ok   bool
	}
	resCh := make(chan Result, 1)
	go func() {
		var plain []string
		for w.out.Scan() {
			line := w.out.Text()
			if strings.HasPrefix(line, "@@RES ") {
				var r Result
				if err := json.Unmarshal([]byte(line[6:]), &r); err != nil {
					r.crashed = true
					r.crashOut = "bad result line: " + err.Error()
				}
				resCh <- r
				return
			}
			if !strings.HasPrefix(line, "@@RUN") {
				plain = append(plain, line)
			}
		}
		resCh <- Result{Scenario: j.Scenario, Seed: j.Seed, crashed: true, crashOut: strings.Join(plain, "\n")}
	}()
	select {
	case r := <-resCh:
		if r.crashed {
			w.cmd.Wait()
			w.alive = false
			r.crashOut += "\n" + w.errb.String()
			if w.cmd.ProcessState != nil {
				r.crashOut += "\n[worker " + w.cmd.ProcessState.String() + "]"
			}
		}
		return r
	case <-time.After(wallLimit):
		// watchdog: dump stacks, kill
		w.cmd.Process.Signal(os.Interrupt)
		time.Sleep(200 * time.Millisecond)
		w.cmd.Process.Kill()
		w.cmd.Wait()
		w.alive = false
		out := "WATCHDOG: no result within " + wallLimit.String() + "\n" + w.errb.String()
		// keep the stack dump: the one-line harness message does not show it
		dump := filepath.Join(os.TempDir(), fmt.Sprintf("verif-watchdog-%s-%d.txt", j.Scenario, j.Seed))
		os.WriteFile(dump, []byte(out), 0o644)
		return Result{Scenario: j.Scenario, Seed: j.Seed, crashed: true, crashOut: "WATCHDOG: no result within " + wallLimit.String() + " (stacks: " + dump + ")\n" + w.errb.String()}
	}
}

var panicRe = regexp.MustCompile(`(?m)^(panic: .*|fatal error: .*)$`)
var frameRe = regexp.MustCompile(`(?m)^(github\.com/gopcua/opcua[^\s(]*(?:\([^)]*\))?[^\s(]*)\(`)
var raceRe = regexp.MustCompile(`(?s)WARNING: DATA RACE.*?==================`)

// crashViolation turns a dead worker into a violation (or harness trouble).
func crashViolation(prop string, r Result) (Violation, bool) {
	out := r.crashOut
	if strings.Contains(out, "WATCHDOG") {
		return Violation{}, false
	}
	// a panic while the harness itself encodes or parses is harness trouble
	if i := strings.Index(out, "\ngoroutine "); i >= 0 {
		first := out[i:]
		if j := strings.Index(first[1:], "\n\n"); j >= 0 {
			first = first[:j+1]
		}
		if strings.Contains(first, "verif/scen.encodeService") || strings.Contains(first, "verif/refcodec.") || strings.Contains(first, "verif/scen.(*rawSrvConn)") {
			return Violation{}, false
		}
	}
	if i := strings.Index(out, "WARNING: DATA RACE"); i >= 0 {
		rep := out[i:]
		if j := strings.Index(rep, "=================="); j > 0 {
			rep = rep[:j]
		}
		// the two access stacks start with "<Access> at 0x... by goroutine N:"
		var tops []string
		var writes []bool
		harnessInner := 0
		syncAnn := false
		lines := strings.Split(rep, "\n")
		for i := 0; i < len(lines); i++ {
			ln := strings.TrimSpace(lines[i])
			if !(strings.Contains(ln, " at 0x") && strings.Contains(ln, " by ")) {
				continue
			}
			writes = append(writes, strings.Contains(strings.ToLower(ln), "write"))
			top := ""
			for j := i + 1; j < len(lines); j++ {
				f := strings.TrimSpace(lines[j])
				if f == "" {
					break
				}
				if j == i+1 && (strings.HasPrefix(f, "runtime.racewrite()") || strings.HasPrefix(f, "runtime.raceread()")) {
					// not a memory access of the code itself: an explicit annotation of the sync
					// package (sync.WaitGroup models "Add at counter zero concurrent with Wait" so)
					syncAnn = true
				}
				if j == i+1 && strings.HasPrefix(f, "verif/") {
					// this access sits in harness code. If both do, it is a scenario variable
					// shared between harness goroutines: harness trouble. If only one does, the
					// application touched memory the library also touches (a public field): that
					// is the library's race, classed by the library side below.
					harnessInner++
				}
				if strings.HasPrefix(f, "github.com/gopcua/opcua") && !strings.Contains(f, "/simhook.") {
					top = strings.TrimPrefix(strings.TrimSuffix(f, "()"), "github.com/gopcua/opcua")
					top = strings.TrimPrefix(top, "/")
					break
				}
			}
			tops = append(tops, top)
		}
		if harnessInner >= 2 {
			return Violation{}, false
		}
		var repo []string
		for _, t := range tops {
			if t != "" {
				repo = append(repo, t)
			}
		}
		if len(repo) == 0 {
			return Violation{}, false // a race inside the harness: harness trouble
		}
		for len(tops) < 2 {
			tops = append(tops, "")
		}
		for i, t := range tops {
			if t == "" {
				tops[i] = "(harness or runtime frame)"
			}
		}
		for len(writes) < 2 {
			writes = append(writes, false)
		}
		// the class is the writing site (several read sites race with the same
		// write); two writes give a sorted pair
		var sig string
		switch {
		case writes[0] && !writes[1]:
			sig = "write in " + tops[0]
		case writes[1] && !writes[0]:
			sig = "write in " + tops[1]
		default:
			pair := append([]string(nil), tops[:2]...)
			sort.Strings(pair)
			sig = "writes in " + pair[0] + " and " + pair[1]
		}
		if syncAnn {
			other := tops[1]
			if strings.HasSuffix(sig, tops[1]) {
				other = tops[0]
			}
			sig += " [sync-package annotation; other access " + other + "]"
		}
		if len(rep) > 6000 {
			rep = rep[:6000]
		}
		return Violation{Property: prop, Kind: "race", Sig: sig, Detail: "racing accesses: " + tops[0] + " / " + tops[1] + "\n" + rep}, true
	}
	m := panicRe.FindString(out)
	if m == "" {
		return Violation{}, false
	}
	// topmost repo frame after the panic line
	idx := strings.Index(out, m)
	rest := out[idx:]
	fn := "unknown"
	// skip frames that belong to the panicking machinery
	for _, fm := range frameRe.FindAllStringSubmatch(rest, -1) {
		name := fm[1]
		if strings.Contains(name, "/simhook.") {
			continue
		}
		fn = strings.TrimPrefix(name, "github.com/gopcua/opcua")
		fn = strings.TrimPrefix(fn, "/")
		break
	}
	if fn == "unknown" {
		// a panic without any repo frame is harness trouble
		return Violation{}, false
	}
	pm := m
	if len(pm) > 160 {
		pm = pm[:160]
	}
	pm = regexp.MustCompile(`0x[0-9a-f]+`).ReplaceAllString(pm, "0x?")
	pm = regexp.MustCompile(`\[recovered\].*`).ReplaceAllString(pm, "")
	pm = regexp.MustCompile(`\d+`).ReplaceAllString(pm, "N")
	pm = regexp.MustCompile(`interface conversion: .*`).ReplaceAllString(pm, "interface conversion")
	if len(rest) > 6000 {
		rest = rest[:6000]
	}
	return Violation{Property: prop, Kind: "panic", Sig: fn + ": " + strings.TrimSpace(pm), Detail: rest}, true
}

// ---- main ----

func loadJSON(path string, v any) {
	b, err := os.ReadFile(path)
	if err != nil {
		fatal2("%v", err)
	}
	if err := json.Unmarshal(b, v); err != nil {
		fatal2("%s: %v", path, err)
	}
}

type classInfo struct {
	class string
	first Result
	viol  Violation
	count int
}

func main() {
	if len(os.Args) < 2 {
		fatal2("usage: check <ID> [--tier quick|thorough] [--replay file]")
	}
	id := os.Args[1]
	fs := flag.NewFlagSet("check", flag.ExitOnError)
	tier := fs.String("tier", "", "quick or thorough")
	replay := fs.String("replay", "", "replay file")
	nworkers := fs.Int("workers", 0, "worker processes")
	runs := fs.Int("runs", 0, "override number of runs per scenario")
	budget := fs.Int("budget", 0, "thorough budget in seconds")
	nomin := fs.Bool("nomin", false, "skip minimisation")
	fs.Parse(os.Args[2:])
	if *tier == "" {
		*tier = os.Getenv("VERIF_TIER")
	}
	if *tier == "" {
		*tier = "quick"
	}
	if *tier != "quick" && *tier != "thorough" {
		fatal2("bad tier %q", *tier)
	}
	exe, _ := os.Executable()
	verifDir = filepath.Dir(filepath.Dir(exe))
	if v := os.Getenv("VERIF_DIR"); v != "" {
		verifDir = v
	}
	repoDir = "/repo"
	if v := os.Getenv("VERIF_REPO"); v != "" {
		repoDir = v
	}
	buildDir = filepath.Join(verifDir, ".build", id)
	if v := os.Getenv("VERIF_BUILD_TAG"); v != "" {
		buildDir = filepath.Join(verifDir, ".build", id+"-"+v)
	}
	seed := int64(20260921)
	if v := os.Getenv("VERIF_SEED"); v != "" {
		s, err := strconv.ParseInt(v, 10, 64)
		if err != nil {
			fatal2("bad VERIF_SEED")
		}
		seed = s
	}
	var cfgs map[string]CheckCfg
	loadJSON(filepath.Join(verifDir, "checks.json"), &cfgs)
	cfg, ok := cfgs[id]
	if !ok {
		fatal2("unknown check %q", id)
	}
	cfg.Property = id
	var findings []Finding
	loadJSON(filepath.Join(verifDir, "known_findings.json"), &findings)

	t0 := time.Now()
	needRace := false
	for _, sc := range cfg.Scenarios {
		if sc.Race {
			needRace = true
		}
	}
	raceMode = needRace
	bin := build(id, needRace)
	buildWall := time.Since(t0)
	tRun := time.Now() // caps and budgets count exploration time, not build time (cold build caches differ)

	if *replay != "" {
		os.Exit(doReplay(bin, id, *replay))
	}

	nw := *nworkers
	if nw == 0 {
		nw = runtime.NumCPU()
		if nw > 16 {
			nw = 16
		}
	}
	// ---- schedule jobs ----
	type jobSrc struct {
		sc    ScenCfg
		next  uint64
		limit uint64 // 0 = unlimited (thorough)
	}
	var srcs []*jobSrc
	base := uint64(seed) * 1000003
	for i, sc := range cfg.Scenarios {
		js := &jobSrc{sc: sc, next: base + uint64(i)*100000007}
		if *tier == "quick" {
			js.limit = uint64(sc.Quick)
			if *runs > 0 {
				js.limit = uint64(*runs)
			}
		} else if cfg.Exhaustive && *runs > 0 {
			js.limit = uint64(*runs)
		}
		srcs = append(srcs, js)
	}
	capS := cfg.QuickCapS
	if capS == 0 {
		capS = 150
	}
	deadline := tRun.Add(time.Duration(capS) * time.Second)
	if *tier == "thorough" {
		b := 900
		if v := os.Getenv("VERIF_BUDGET_S"); v != "" {
			b, _ = strconv.Atoi(v)
		}
		if *budget > 0 {
			b = *budget
		}
		deadline = tRun.Add(time.Duration(b) * time.Second)
	}
	var mu sync.Mutex
	issued := map[string]uint64{}
	nextJob := func() (Job, bool) {
		mu.Lock()
		defer mu.Unlock()
		if time.Now().After(deadline) {
			return Job{}, false
		}
		// weighted round robin: pick the source with the lowest issued/weight
		var best *jobSrc
		var bestScore float64
		for _, s := range srcs {
			if s.limit > 0 && issued[s.sc.Name] >= s.limit {
				continue
			}
			w := s.sc.Weight
			if w <= 0 {
				w = 1
			}
			score := float64(issued[s.sc.Name]) / float64(w)
			if *tier == "quick" {
				score = float64(issued[s.sc.Name]) / float64(s.limit+1)
			}
			if best == nil || score < bestScore {
				best, bestScore = s, score
			}
		}
		if best == nil {
			return Job{}, false
		}
		issued[best.sc.Name]++
		j := Job{Scenario: best.sc.Name, Seed: best.next}
		best.next++
		return j, true
	}

	// ---- aggregate ----
	var (
		total, nontriv, crashes, harness int
		steps                            int64
		simNs                            int64
		hashes                           = map[string]bool{}
		ntHashes                         = map[string]bool{}
		probes                           = map[string]int{}
		faults                           = map[string]int{}
		samples                          []any
		perScen                          = map[string]int{}
		ntPerScen                        = map[string]int{}
		classes                          = map[string]*classInfo{}
		leaks                            int
		timedOut, stepsOut               int
		harnessMsgs                      []string
		detCheck                         []Result
	)
	record := func(r Result) {
		mu.Lock()
		defer mu.Unlock()
		total++
		perScen[r.Scenario]++
		if r.crashed {
			crashes++
			v, ok := crashViolation(id, r)
			if !ok {
				harness++
				msg := r.crashOut
				if len(msg) > 3000 {
					msg = msg[len(msg)-3000:]
				}
				harnessMsgs = append(harnessMsgs, fmt.Sprintf("scenario=%s seed=%d: %s", r.Scenario, r.Seed, msg))
				return
			}
			r.Violations = []Violation{v}
		}
		steps += int64(r.Steps)
		simNs += r.SimNanos
		hashes[r.Scenario+r.TraceHash] = true
		if r.Nontrivial {
			nontriv++
			ntPerScen[r.Scenario]++
			ntHashes[r.Scenario+r.TraceHash] = true
		}
		for k, c := range r.Probes {
			probes[k] += c
		}
		for k, c := range r.Faults {
			faults[k] += c
		}
		if r.Sample != nil && len(samples) < 4 && len(r.Violations) == 0 {
			samples = append(samples, map[string]any{"scenario": r.Scenario, "seed": r.Seed, "case": r.Sample, "steps": r.Steps, "sim_ns": r.SimNanos})
		}
		if r.Leaked != "" {
			leaks++
		}
		if r.TimedOut {
			timedOut++
		}
		if r.StepsOut {
			stepsOut++
		}
		if !r.crashed && len(r.Violations) == 0 && len(detCheck) < 6 && total%7 == 3 {
			detCheck = append(detCheck, r)
		}
		for _, v := range r.Violations {
			if v.Property == "HARNESS" {
				harness++
				harnessMsgs = append(harnessMsgs, fmt.Sprintf("scenario=%s seed=%d: %s: %s", r.Scenario, r.Seed, v.Sig, v.Detail))
				continue
			}
			if len(cfg.Only) > 0 {
				keep := false
				for _, p := range cfg.Only {
					if p == v.Property {
						keep = true
					}
				}
				if !keep {
					continue
				}
			} else if v.Property != id {
				// a scenario may notice violations of other properties; they
				// are reported by those properties' own checks
				continue
			}
			c := v.Class()
			ci := classes[c]
			if ci == nil {
				ci = &classInfo{class: c, first: r, viol: v}
				classes[c] = ci
			}
			ci.count++
		}
	}

	var wg sync.WaitGroup
	for i := 0; i < nw; i++ {
		wg.Add(1)
		go func() {
			defer wg.Done()
			var w *worker
			n := 0
			for {
				j, ok := nextJob()
				if !ok {
					break
				}
				if w == nil || !w.alive || n >= 400 {
					if w != nil {
						w.stop()
					}
					w = startWorker(bin)
					n = 0
				}
				n++
				record(w.run(j, 300*time.Second))
			}
			if w != nil {
				w.stop()
			}
		}()
	}
	wg.Wait()
	exploreWall := time.Since(tRun)

	// ---- determinism self check on a sample ----
	nondet, sweepDev := 0, 0
	if len(detCheck) > 0 {
		w := startWorker(bin)
		for _, r := range detCheck {
			r2 := w.run(Job{Scenario: r.Scenario, Seed: r.Seed}, 300*time.Second)
			if r2.crashed {
				w = startWorker(bin)
				continue
			}
			if r2.TraceHash != r.TraceHash {
				// what replay relies on is that executions of a seed in fresh processes agree.
				// Execute it once more in a brand-new worker: if the two isolated executions
				// agree, the run inside the sweep deviated because of something an earlier run
				// left behind in its worker process (counted and printed, see DESIGN 12.8);
				// if they disagree the seed does not determine the run: harness failure.
				w3 := startWorker(bin)
				r3 := w3.run(Job{Scenario: r.Scenario, Seed: r.Seed}, 300*time.Second)
				w3.stop()
				if !r3.crashed && r3.TraceHash == r2.TraceHash {
					sweepDev++
					fmt.Printf("warning: scenario=%s seed=%d: trace inside the sweep %s, in two fresh processes %s (carry-over inside a worker process)\n", r.Scenario, r.Seed, r.TraceHash, r2.TraceHash)
				} else {
					nondet++
					harnessMsgs = append(harnessMsgs, fmt.Sprintf("NONDETERMINISM scenario=%s seed=%d trace %s vs %s vs %s", r.Scenario, r.Seed, r.TraceHash, r2.TraceHash, r3.TraceHash))
				}
			}
		}
		w.stop()
	}

	// ---- classify / minimise / confirm ----
	var names []string
	for c := range classes {
		names = append(names, c)
	}
	sort.Strings(names)
	exit := 0
	var outLines []string
	nviol := 0
	os.MkdirAll(filepath.Join(verifDir, "replays"), 0o755)
	knownSeen := map[int]bool{}
	knownHits := map[string]int{}
	for _, c := range names {
		ci := classes[c]
		// known finding?
		known := -1
		for i, f := range findings {
			if f.Status != "open" || f.Property != ci.viol.Property {
				continue
			}
			re, err := regexp.Compile(f.Class)
			if err != nil {
				fatal2("known_findings.json: bad class regexp %q", f.Class)
			}
			if re.MatchString(c) {
				known = i
				break
			}
		}
		if known >= 0 {
			knownHits[c] += ci.count
			if !knownSeen[known] {
				knownSeen[known] = true
				outLines = append(outLines, fmt.Sprintf("KNOWN-FINDING: property=%s %s (observed %d times this run, e.g. scenario=%s seed=%d)", ci.viol.Property, findings[known].What, ci.count, ci.first.Scenario, ci.first.Seed))
			}
			continue
		}
		nviol++
		if nviol > 12 {
			continue
		}
		job := Job{Property: ci.viol.Property, Scenario: ci.first.Scenario, Seed: ci.first.Seed, PlanTape: ci.first.PlanTape, SchedTape: ci.first.SchedTape, Class: c, Detail: ci.viol.Detail, Trace: ci.first.TraceHash}
		if ci.first.crashed && job.PlanTape == nil {
			// a crashed run could not report its tapes: re-run is by seed
			job.PlanTape, job.SchedTape = nil, nil
		}
		confirmed := false
		switch {
		case raceMode:
			// a report of the race detector is definitive; race mode does not
			// promise that the same seed shows it again (DESIGN 4.7)
			confirmed = true
		case !*nomin:
			job, confirmed = minimise(bin, job)
		default:
			confirmed = confirm(bin, job)
		}
		path := filepath.Join(verifDir, "replays", fmt.Sprintf("%s-%s-%d.json", ci.viol.Property, ci.first.Scenario, ci.first.Seed))
		b, _ := json.MarshalIndent(job, "", " ")
		os.WriteFile(path, b, 0o644)
		if !confirmed {
			harness++
			harnessMsgs = append(harnessMsgs, fmt.Sprintf("violation class %q (scenario=%s seed=%d) did not reproduce on replay; replay file %s", c, ci.first.Scenario, ci.first.Seed, path))
			continue
		}
		exit = 1
		d := job.Detail // of the minimised run the replay file reproduces
		if d == "" {
			d = ci.viol.Detail
		}
		if len(d) > 1500 {
			d = d[:1500] + "..."
		}
		outLines = append(outLines, fmt.Sprintf("VIOLATION property=%s replay=%s", ci.viol.Property, path))
		outLines = append(outLines, fmt.Sprintf("  class=%s count=%d scenario=%s seed=%d\n  %s", c, ci.count, ci.first.Scenario, ci.first.Seed, strings.ReplaceAll(d, "\n", "\n  ")))
	}

	// every listed open finding of this property is named on every run; one
	// the sampled schedules did not reach this time is said to be so
	for i, f := range findings {
		if f.Status == "open" && f.Property == id && !knownSeen[i] {
			outLines = append(outLines, fmt.Sprintf("KNOWN-FINDING: property=%s %s (listed; not reached by this run's %d sampled executions)", id, f.What, total))
		}
	}

	// ---- evidence ----
	wall := time.Since(t0).Seconds()
	dn := len(ntHashes)
	cov := map[string]any{
		"evaluations":                  total,
		"distinct_nontrivial":          dn,
		"rule":                         cfg.Rule,
		"samples":                      samples,
		"distinct_traces":              len(hashes),
		"nontrivial_runs":              nontriv,
		"scheduler_steps":              steps,
		"simulated_seconds":            float64(simNs) / 1e9,
		"runs_per_hour":                float64(total) / exploreWall.Hours(),
		"runs_per_scenario":            perScen,
		"nontrivial_runs_per_scenario": ntPerScen,
		"in_sweep_trace_deviations":    sweepDev,
		"faults_fired":                 faults,
		"probes":                       probes,
		"real_components":              cfg.Real,
		"stub_components":              cfg.Stub,
		"seed_base":                    base,
		"build_wall_s":                 buildWall.Seconds(),
		"explore_wall_s":               exploreWall.Seconds(),
		"workers":                      nw,
		"worker_crashes":               crashes,
		"harness_errors":               harness,
		"nondeterministic":             nondet,
		"runs_hit_horizon":             timedOut,
		"runs_hit_step_cap":            stepsOut,
		"goroutine_leak_runs":          leaks,
		"violation_classes":            names,
		"known_finding_hits":           knownHits,
		"exhaustive":                   cfg.Exhaustive && *tier != "" && !time.Now().After(deadline.Add(time.Hour)),
	}
	if !cfg.Exhaustive {
		delete(cov, "exhaustive")
	}
	ev := map[string]any{
		"property_id": id,
		"tier":        *tier,
		"seed":        seed,
		"level":       cfg.Level,
		"coverage":    cov,
		"assumptions": cfg.Assume,
		"wall_s":      wall,
		"violations":  nviol,
	}
	os.MkdirAll(filepath.Join(verifDir, "evidence"), 0o755)
	eb, _ := json.MarshalIndent(ev, "", " ")
	os.WriteFile(filepath.Join(verifDir, "evidence", id+".json"), eb, 0o644)

	for _, l := range outLines {
		fmt.Println(l)
	}
	for k, v := range probes {
		if v == 0 {
			fmt.Printf("warning: probe %s never hit\n", k)
		}
	}
	for sc, n := range perScen {
		if n >= 20 && ntPerScen[sc] == 0 {
			fmt.Printf("warning: scenario %s: none of its %d runs was non-trivial (blind work load?)\n", sc, n)
		}
	}
	fmt.Printf("check %s tier=%s runs=%d nontrivial_distinct=%d steps=%d sim_s=%.1f wall_s=%.1f violations=%d crashes=%d harness=%d\n",
		id, *tier, total, dn, steps, float64(simNs)/1e9, wall, nviol, crashes, harness)
	if harness > 0 || nondet > 0 {
		for i, m := range harnessMsgs {
			if i >= 5 {
				break
			}
			fmt.Fprintf(os.Stderr, "HARNESS: %s\n", m)
		}
		if exit == 0 {
			os.Exit(2)
		}
	}
	if total == 0 {
		fatal2("no runs executed")
	}
	os.Exit(exit)
}

// runFresh executes a job in a fresh worker process.
func runFresh(bin string, j Job) Result {
	w := startWorker(bin)
	defer w.stop()
	return w.run(j, 300*time.Second)
}

func classOf(prop string, r Result) []string {
	if r.crashed {
		if v, ok := crashViolation(prop, r); ok {
			return []string{v.Class()}
		}
		return nil
	}
	var out []string
	for _, v := range r.Violations {
		out = append(out, v.Class())
	}
	return out
}

func hasClass(prop string, r Result, c string) bool {
	for _, x := range classOf(prop, r) {
		if x == c {
			return true
		}
	}
	return false
}

func confirm(bin string, j Job) bool {
	return hasClass(j.Property, runFresh(bin, j), j.Class)
}

// minimise shrinks the plan tape, then the schedule tape, keeping the same
// violation class; then confirms the result in a fresh process.
func minimise(bin string, j Job) (Job, bool) {
	// obtain tapes if missing (crash): cannot, replay is by seed
	if j.PlanTape == nil && j.SchedTape == nil {
		return j, confirm(bin, j)
	}
	budget := 120
	minDeadline := time.Now().Add(150 * time.Second)
	var w *worker
	try := func(c Job) (Result, bool) {
		if budget <= 0 || time.Now().After(minDeadline) {
			budget = 0
			return Result{}, false
		}
		budget--
		if w == nil || !w.alive {
			w = startWorker(bin)
		}
		r := w.run(c, 40*time.Second)
		return r, hasClass(j.Property, r, j.Class)
	}
	cur := j
	shrink := func(get func(Job) []uint32, set func(*Job, []uint32)) {
		// 1. truncate (rest = 0) by binary search on the kept prefix
		tape := get(cur)
		lo, hi := 0, len(tape)
		for lo < hi && budget > 0 {
			mid := (lo + hi) / 2
			c := cur
			// never nil: a job without tapes means "fresh run of the seed" to the worker
			set(&c, append(make([]uint32, 0, mid+1), tape[:mid]...))
			if r, ok := try(c); ok {
				hi = mid
				cur = c
				cur.Detail = detailOf(r, j.Class)
				cur.Trace = r.TraceHash
				tape = get(cur)
			} else {
				lo = mid + 1
			}
		}
		// 2. zero blocks
		tape = get(cur)
		for blk := len(tape) / 2; blk >= 1 && budget > 0; blk /= 2 {
			for i := 0; i+blk <= len(tape) && budget > 0; i += blk {
				allZero := true
				for _, v := range tape[i : i+blk] {
					if v != 0 {
						allZero = false
					}
				}
				if allZero {
					continue
				}
				nt := append([]uint32(nil), tape...)
				for k := i; k < i+blk; k++ {
					nt[k] = 0
				}
				c := cur
				set(&c, nt)
				if r, ok := try(c); ok {
					cur = c
					cur.Detail = detailOf(r, j.Class)
					cur.Trace = r.TraceHash
					tape = nt
				}
			}
			if blk == 1 {
				break
			}
		}
	}
	shrink(func(j Job) []uint32 { return j.PlanTape }, func(j *Job, t []uint32) { j.PlanTape = t })
	budget += 80
	shrink(func(j Job) []uint32 { return j.SchedTape }, func(j *Job, t []uint32) { j.SchedTape = t })
	if w != nil {
		w.stop()
	}
	if cur.PlanTape == nil {
		cur.PlanTape = []uint32{}
	}
	if cur.SchedTape == nil {
		cur.SchedTape = []uint32{}
	}
	// the replay file records what a fresh process shows for exactly these tapes
	if r := runFresh(bin, cur); hasClass(cur.Property, r, cur.Class) {
		cur.Detail, cur.Trace = detailOf(r, cur.Class), r.TraceHash
		return cur, true
	}
	// fall back to the unminimised tapes
	if j.PlanTape == nil {
		j.PlanTape = []uint32{}
	}
	if j.SchedTape == nil {
		j.SchedTape = []uint32{}
	}
	r := runFresh(bin, j)
	if hasClass(j.Property, r, j.Class) {
		j.Detail, j.Trace = detailOf(r, j.Class), r.TraceHash
		return j, true
	}
	return j, false
}

func detailOf(r Result, class string) string {
	for _, v := range r.Violations {
		if v.Class() == class {
			return v.Detail
		}
	}
	return r.crashOut
}

func doReplay(bin, id, path string) int {
	var j Job
	loadJSON(path, &j)
	if j.Property == "" {
		j.Property = id
	}
	r := runFresh(bin, j)
	cl := classOf(j.Property, r)
	if len(cl) == 0 {
		fmt.Printf("replay %s: no violation (trace %s)\n", path, r.TraceHash)
		return 0
	}
	for _, c := range cl {
		fmt.Printf("VIOLATION property=%s replay=%s\n  class=%s\n", strings.SplitN(c, "|", 2)[0], path, c)
	}
	for _, v := range r.Violations {
		d := v.Detail
		if len(d) > 3000 {
			d = d[:3000]
		}
		fmt.Printf("  %s\n", strings.ReplaceAll(d, "\n", "\n  "))
	}
	if r.crashed {
		d := r.crashOut
		if len(d) > 4000 {
			d = d[:4000]
		}
		fmt.Println(d)
	}
	if j.Class != "" {
		same := false
		for _, c := range cl {
			if c == j.Class {
				same = true
			}
		}
		fmt.Printf("  same class as recorded: %v; trace %s (recorded %s)\n", same, r.TraceHash, j.Trace)
	}
	return 1
}
