// genkeys writes the RSA keys and self-signed certificates used by the
// secured scenarios into testdata/ (run once; the files are committed).
package main

import (
	"crypto/rand"
	"crypto/rsa"
	"crypto/x509"
	"crypto/x509/pkix"
	"encoding/pem"
	"fmt"
	"math/big"
	"net/url"
	"os"
	"time"
)

func main() {
	for _, role := range []string{"client", "server"} {
		for _, bits := range []int{1024, 2048, 3072, 4096} {
			key, err := rsa.GenerateKey(rand.Reader, bits)
			if err != nil {
				panic(err)
			}
			uri, _ := url.Parse("urn:verif:" + role)
			tmpl := &x509.Certificate{
				SerialNumber:          big.NewInt(int64(bits)),
				Subject:               pkix.Name{CommonName: fmt.Sprintf("verif %s %d", role, bits), Organization: []string{"verif"}},
				NotBefore:             time.Date(1999, 1, 1, 0, 0, 0, 0, time.UTC),
				NotAfter:              time.Date(2099, 1, 1, 0, 0, 0, 0, time.UTC),
				KeyUsage:              x509.KeyUsageDigitalSignature | x509.KeyUsageKeyEncipherment | x509.KeyUsageDataEncipherment | x509.KeyUsageContentCommitment | x509.KeyUsageCertSign,
				ExtKeyUsage:           []x509.ExtKeyUsage{x509.ExtKeyUsageServerAuth, x509.ExtKeyUsageClientAuth},
				URIs:                  []*url.URL{uri},
				DNSNames:              []string{"srv"},
				BasicConstraintsValid: true,
			}
			der, err := x509.CreateCertificate(rand.Reader, tmpl, tmpl, &key.PublicKey, key)
			if err != nil {
				panic(err)
			}
			base := fmt.Sprintf("testdata/%s_%d", role, bits)
			os.WriteFile(base+".key.pem", pem.EncodeToMemory(&pem.Block{Type: "RSA PRIVATE KEY", Bytes: x509.MarshalPKCS1PrivateKey(key)}), 0o644)
			os.WriteFile(base+".cert.der", der, 0o644)
		}
	}
}
