// overlaygen reads the current sources of the gopcua packages that hold
// locks across blocking operations and writes rewritten copies plus an
// overlay JSON for `go build -overlay`:
//
//   - struct fields (named or embedded) of type sync.Mutex / sync.RWMutex /
//     sync.Once become simhook.Mutex / simhook.RWMutex / simhook.Once, which
//     block durably under testing/synctest and are scheduling points;
//   - the map range statements listed in rangeSites iterate their keys in an
//     order chosen by the scheduler;
//   - the select statements listed in gateSites are gated, so that the
//     scheduler decides which of several ready cases is taken.
//
// All rewrites are textual splices at positions found with go/ast, so the
// rest of each file is byte-identical to /repo. A construct that is expected
// but not found is an error (exit 2), never a silent skip.
package main

import (
	"bytes"
	"encoding/json"
	"flag"
	"fmt"
	"go/ast"
	"go/parser"
	"go/token"
	"os"
	"path/filepath"
	"sort"
	"strings"
)

var pkgs = []string{".", "uasc", "server", "monitor"}

type rangeSite struct {
	Pkg, Func, Expr, KeyType string
	found                    bool
}

var rangeSites = []*rangeSite{
	{Pkg: ".", Func: "SubscriptionIDs", Expr: "c.subs", KeyType: "uint32"},
	{Pkg: ".", Func: "notifyAllSubscriptionsOfError", Expr: "c.subs", KeyType: "uint32"},
	{Pkg: "server", Func: "run", Expr: "publishQueue", KeyType: "uint32"},
	{Pkg: "server", Func: "Close", Expr: "c.s", KeyType: "uint32"},
}

type gateSite struct {
	Pkg, Func string
	Chans     []string
	found     int
}

var gateSites = []*gateSite{
	{Pkg: ".", Func: "monitorSubscriptions", Chans: []string{"c.pausech", "c.resumech", "ctx.Done()"}},
	{Pkg: ".", Func: "pauseSubscriptions", Chans: []string{"ctx.Done()", "send:c.pausech"}},
	{Pkg: ".", Func: "resumeSubscriptions", Chans: []string{"ctx.Done()", "send:c.resumech"}},
	{Pkg: ".", Func: "setState", Chans: []string{"ctx.Done()", "send:c.stateCh"}},
	{Pkg: ".", Func: "notify", Chans: []string{"ctx.Done()", "send:s.Notifs"}},
	{Pkg: "server", Func: "run", Chans: []string{"s.NotifyChannel", "s.T.C", "s.ModifyChannel"}},
	{Pkg: "server", Func: "run", Chans: []string{"s.Session.PublishRequests", "s.NotifyChannel", "s.T.C"}},
}

func die(format string, args ...any) {
	fmt.Fprintf(os.Stderr, "overlaygen: "+format+"\n", args...)
	os.Exit(2)
}

type edit struct {
	start, end int
	text       string
}

func main() {
	repo := flag.String("repo", "/repo", "repository root")
	out := flag.String("out", ".build/overlay", "output directory")
	flag.Parse()
	absRepo, _ := filepath.Abs(*repo)
	absOut, _ := filepath.Abs(*out)
	os.RemoveAll(absOut)
	if err := os.MkdirAll(absOut, 0o755); err != nil {
		die("%v", err)
	}
	replace := map[string]string{}
	mapRanges := findMapRanges(absRepo, pkgs)
	autoRanges, skippedRanges := 0, 0
	swapped := 0
	uniq := 0
	tickers := 0
	autoSends := 0
	autoGo := 0
	goCallees := findGoCallees(absRepo, pkgs)
	for _, pkg := range pkgs {
		dir := filepath.Join(absRepo, pkg)
		ents, err := os.ReadDir(dir)
		if err != nil {
			die("%v", err)
		}
		for _, e := range ents {
			name := e.Name()
			if e.IsDir() || !strings.HasSuffix(name, ".go") || strings.HasSuffix(name, "_test.go") {
				continue
			}
			path := filepath.Join(dir, name)
			src, err := os.ReadFile(path)
			if err != nil {
				die("%v", err)
			}
			if bytes.Contains(src, []byte("//go:build !verif")) || bytes.Contains(src, []byte("//go:build ignore")) {
				continue
			}
			fset := token.NewFileSet()
			f, err := parser.ParseFile(fset, path, src, parser.ParseComments)
			if err != nil {
				die("parse %s: %v", path, err)
			}
			off := func(p token.Pos) int { return fset.Position(p).Offset }
			text := func(n ast.Node) string { return string(src[off(n.Pos()):off(n.End())]) }
			var edits []edit
			importsSync := false
			for _, im := range f.Imports {
				if im.Path.Value == `"sync"` {
					importsSync = true
				}
			}
			ast.Inspect(f, func(n ast.Node) bool {
				st, ok := n.(*ast.StructType)
				if !ok {
					return true
				}
				for _, fld := range st.Fields.List {
					sel, ok := fld.Type.(*ast.SelectorExpr)
					if !ok {
						continue
					}
					x, ok := sel.X.(*ast.Ident)
					if !ok || x.Name != "sync" {
						continue
					}
					switch sel.Sel.Name {
					case "Mutex", "RWMutex", "Once":
						edits = append(edits, edit{off(x.Pos()), off(x.End()), "simhook"})
						swapped++
					}
				}
				return true
			})
			if pkg == "server" {
				ast.Inspect(f, func(n ast.Node) bool {
					switch x := n.(type) {
					case *ast.Field:
						if st, ok := x.Type.(*ast.StarExpr); ok {
							if sel, ok := st.X.(*ast.SelectorExpr); ok && sel.Sel.Name == "Ticker" {
								if id, ok := sel.X.(*ast.Ident); ok && id.Name == "time" {
									edits = append(edits, edit{off(id.Pos()), off(id.End()), "simhook"})
									tickers++
								}
							}
						}
					case *ast.CallExpr:
						if sel, ok := x.Fun.(*ast.SelectorExpr); ok && sel.Sel.Name == "NewTicker" {
							if id, ok := sel.X.(*ast.Ident); ok && id.Name == "time" {
								edits = append(edits, edit{off(id.Pos()), off(id.End()), "simhook"})
								tickers++
							}
						}
					}
					return true
				})
			}
			for _, d := range f.Decls {
				fd, ok := d.(*ast.FuncDecl)
				if !ok || fd.Body == nil {
					continue
				}
				for _, rs := range rangeSites {
					if rs.Pkg != pkg || rs.Func != fd.Name.Name {
						continue
					}
					ast.Inspect(fd.Body, func(n ast.Node) bool {
						r, ok := n.(*ast.RangeStmt)
						if !ok || text(r.X) != rs.Expr || r.Tok != token.DEFINE {
							return true
						}
						uniq++
						delete(mapRanges[path], off(r.Pos()))
						keys := fmt.Sprintf("_simkeys%d", uniq)
						k := fmt.Sprintf("_simk%d", uniq)
						if id, ok := r.Key.(*ast.Ident); ok && id.Name != "_" {
							k = id.Name
						}
						var b strings.Builder
						fmt.Fprintf(&b, "var %s []%s; for _kk := range %s { %s = append(%s, _kk) }; ", keys, rs.KeyType, rs.Expr, keys, keys)
						fmt.Fprintf(&b, "for _, %s := range simhook.Order(%q, %s) {", k, rs.Pkg+"."+rs.Func, keys)
						if id, ok := r.Value.(*ast.Ident); ok && id.Name != "_" {
							fmt.Fprintf(&b, " %s, _simok%d := %s[%s]; if !_simok%d { continue };", id.Name, uniq, rs.Expr, k, uniq)
						}
						edits = append(edits, edit{off(r.Pos()), off(r.Body.Lbrace) + 1, b.String()})
						rs.found = true
						return true
					})
				}
				for _, gs := range gateSites {
					if gs.Pkg != pkg || gs.Func != fd.Name.Name {
						continue
					}
					ast.Inspect(fd.Body, func(n ast.Node) bool {
						sel, ok := n.(*ast.SelectStmt)
						if !ok {
							return true
						}
						idx := map[string]ast.Expr{} // channel expression per case, keyed "expr" or "send:expr"
						for _, c := range sel.Body.List {
							cc := c.(*ast.CommClause)
							var ue *ast.UnaryExpr
							switch s := cc.Comm.(type) {
							case *ast.ExprStmt:
								ue, _ = s.X.(*ast.UnaryExpr)
							case *ast.AssignStmt:
								if len(s.Rhs) == 1 {
									ue, _ = s.Rhs[0].(*ast.UnaryExpr)
								}
							case *ast.SendStmt:
								idx["send:"+text(s.Chan)] = s.Chan
							}
							if ue != nil && ue.Op == token.ARROW {
								idx[text(ue.X)] = ue.X
							}
						}
						for _, ch := range gs.Chans {
							if idx[ch] == nil {
								return true
							}
						}
						uniq++
						g := fmt.Sprintf("_simg%d", uniq)
						var conds []string
						for _, ch := range gs.Chans {
							switch {
							case strings.HasSuffix(ch, ".Done()"):
								conds = append(conds, strings.TrimSuffix(ch, ".Done()")+".Err() != nil")
							case strings.HasPrefix(ch, "send:"):
								e := strings.TrimPrefix(ch, "send:")
								conds = append(conds, fmt.Sprintf("%s != nil && len(%s) < cap(%s)", e, e, e))
							default:
								conds = append(conds, fmt.Sprintf("len(%s) > 0", ch))
							}
						}
						edits = append(edits, edit{off(sel.Pos()), off(sel.Pos()),
							fmt.Sprintf("%s := simhook.Gate(%q, %s); ", g, gs.Pkg+"."+gs.Func, strings.Join(conds, ", "))})
						for i, ch := range gs.Chans {
							x := idx[ch]
							fn := "Pick"
							e := ch
							if strings.HasPrefix(ch, "send:") {
								fn = "PickSend"
								e = strings.TrimPrefix(ch, "send:")
							}
							edits = append(edits, edit{off(x.Pos()), off(x.End()), fmt.Sprintf("simhook.%s(%s, %d, %s)", fn, g, i, e)})
						}
						gs.found++
						return true
					})
				}
			}
			// a scheduling point before every plain channel send (a send that is the
			// communication of a select case is gated instead): the hand-placed hooks
			// of /repo cover the windows known when they were written; these cover
			// whatever the working tree contains now, including code that moved out of
			// a critical section
			for _, d := range f.Decls {
				fd, ok := d.(*ast.FuncDecl)
				if !ok || fd.Body == nil {
					continue
				}
				inComm := map[ast.Stmt]bool{}
				ast.Inspect(fd.Body, func(n ast.Node) bool {
					if cc, ok := n.(*ast.CommClause); ok && cc.Comm != nil {
						inComm[cc.Comm] = true
					}
					return true
				})
				var visitList func(list []ast.Stmt)
				ast.Inspect(fd.Body, func(n ast.Node) bool {
					var list []ast.Stmt
					switch b := n.(type) {
					case *ast.BlockStmt:
						list = b.List
					case *ast.CaseClause:
						list = b.Body
					case *ast.CommClause:
						list = b.Body
					}
					for _, st := range list {
						if ss, ok := st.(*ast.SendStmt); ok && !inComm[st] {
							edits = append(edits, edit{off(ss.Pos()), off(ss.Pos()), fmt.Sprintf("simhook.Yield(%q); ", "send:"+pkg+"."+fd.Name.Name)})
							autoSends++
						}
					}
					return true
				})
				_ = visitList
			}
			// goroutine start is a scheduling point: a yield opens the body of every
			// function literal started with `go`, and of every function or method of
			// this package whose name is the callee of a `go` statement (a yield more at
			// the entry of a function that is also called directly is harmless). Without
			// it a new goroutine runs up to its first lock before the scheduler sees it.
			for _, d := range f.Decls {
				fd, ok := d.(*ast.FuncDecl)
				if !ok || fd.Body == nil {
					continue
				}
				ast.Inspect(fd.Body, func(n ast.Node) bool {
					gs, ok := n.(*ast.GoStmt)
					if !ok {
						return true
					}
					if lit, ok := gs.Call.Fun.(*ast.FuncLit); ok {
						edits = append(edits, edit{off(lit.Body.Lbrace) + 1, off(lit.Body.Lbrace) + 1, fmt.Sprintf(" simhook.Yield(%q); ", "go:"+pkg+"."+fd.Name.Name)})
						autoGo++
					}
					return true
				})
				if goCallees[pkg][fd.Name.Name] && len(fd.Body.List) > 0 {
					edits = append(edits, edit{off(fd.Body.Lbrace) + 1, off(fd.Body.Lbrace) + 1, fmt.Sprintf(" simhook.Yield(%q); ", "go:"+pkg+"."+fd.Name.Name)})
					autoGo++
				}
			}
			// every other range over a map: sorted keys, rotation chosen by the scheduler
			ast.Inspect(f, func(n ast.Node) bool {
				r, ok := n.(*ast.RangeStmt)
				if !ok {
					return true
				}
				mr := mapRanges[path][off(r.Pos())]
				if mr == nil {
					return true
				}
				pure := func(e ast.Expr) bool {
					ok := true
					ast.Inspect(e, func(n ast.Node) bool {
						switch n.(type) {
						case *ast.CallExpr, *ast.UnaryExpr, *ast.FuncLit:
							ok = false
						}
						return ok
					})
					return ok
				}
				if !mr.ordered || r.Key == nil || r.Tok != token.DEFINE || (mr.labeled && !pure(r.X)) {
					fmt.Fprintf(os.Stderr, "overlaygen: note: map range in %s.%s (%s) left as it is\n", pkg, mr.fn, text(r.X))
					skippedRanges++
					return true
				}
				uniq++
				m := text(r.X)
				var b strings.Builder
				if !pure(r.X) {
					fmt.Fprintf(&b, "_simm%d := %s; ", uniq, m)
					m = fmt.Sprintf("_simm%d", uniq)
				} else {
					m = "(" + m + ")"
				}
				k := fmt.Sprintf("_simk%d", uniq)
				if id, ok := r.Key.(*ast.Ident); ok && id.Name != "_" {
					k = id.Name
				}
				fmt.Fprintf(&b, "for _, %s := range simhook.OrderedKeys(%q, %s) {", k, pkg+"."+mr.fn, m)
				v := "_"
				if id, ok := r.Value.(*ast.Ident); ok && id.Name != "_" {
					v = id.Name
				}
				if v == "_" {
					fmt.Fprintf(&b, " if _, _simok%d := %s[%s]; !_simok%d { continue };", uniq, m, k, uniq)
				} else {
					fmt.Fprintf(&b, " %s, _simok%d := %s[%s]; if !_simok%d { continue };", v, uniq, m, k, uniq)
				}
				edits = append(edits, edit{off(r.Pos()), off(r.Body.Lbrace) + 1, b.String()})
				autoRanges++
				return true
			})
			if len(edits) == 0 {
				continue
			}
			// import right after the package clause
			hasHook := false
			for _, im := range f.Imports {
				if im.Path.Value == `"github.com/gopcua/opcua/simhook"` {
					hasHook = true
				}
			}
			if !hasHook {
				pe := off(f.Name.End())
				edits = append(edits, edit{pe, pe, "; import \"github.com/gopcua/opcua/simhook\""})
			}
			sort.Slice(edits, func(i, j int) bool { return edits[i].start > edits[j].start })
			outb := append([]byte(nil), src...)
			for _, ed := range edits {
				outb = append(outb[:ed.start], append([]byte(ed.text), outb[ed.end:]...)...)
			}
			if importsSync {
				outb = append(outb, []byte("\nvar _ sync.Locker\n")...)
			}
			for _, im := range f.Imports {
				if im.Path.Value == `"time"` {
					outb = append(outb, []byte("\nvar _ time.Duration\n")...)
				}
			}
			if _, err := parser.ParseFile(token.NewFileSet(), path, outb, 0); err != nil {
				die("rewritten %s does not parse: %v", path, err)
			}
			outName := strings.ReplaceAll(filepath.Join(pkg, name), string(filepath.Separator), "__")
			outPath := filepath.Join(absOut, outName)
			if err := os.WriteFile(outPath, outb, 0o644); err != nil {
				die("%v", err)
			}
			replace[path] = outPath
		}
	}
	if swapped < 20 {
		die("only %d mutex/once fields found; expected at least 20 (did the code move?)", swapped)
	}
	if tickers < 2 {
		die("server ticker field / NewTicker call not found (%d)", tickers)
	}
	for _, rs := range rangeSites {
		if !rs.found {
			die("range site %s.%s over %s not found", rs.Pkg, rs.Func, rs.Expr)
		}
	}
	for _, gs := range gateSites {
		if gs.found == 0 {
			die("gate site %s.%s not found", gs.Pkg, gs.Func)
		}
	}
	fmt.Printf("overlaygen: %d mutex/once fields, %d curated + %d other map ranges ordered (%d left), %d tickers\n", swapped, len(rangeSites), autoRanges, skippedRanges, tickers)
	js, _ := json.MarshalIndent(map[string]any{"Replace": replace}, "", " ")
	if err := os.WriteFile(filepath.Join(absOut, "overlay.json"), js, 0o644); err != nil {
		die("%v", err)
	}
	fmt.Printf("overlaygen: %d files rewritten, %d lock fields swapped, %d yields before channel sends, %d at goroutine starts\n", len(replace), swapped, autoSends, autoGo)
}

// findGoCallees returns, per package, the names of functions and methods that
// are the callee of a go statement (go f(x), go r.m(x)).
func findGoCallees(repo string, pkgs []string) map[string]map[string]bool {
	out := map[string]map[string]bool{}
	for _, pkg := range pkgs {
		out[pkg] = map[string]bool{}
		dir := filepath.Join(repo, pkg)
		ents, err := os.ReadDir(dir)
		if err != nil {
			die("%v", err)
		}
		for _, e := range ents {
			name := e.Name()
			if e.IsDir() || !strings.HasSuffix(name, ".go") || strings.HasSuffix(name, "_test.go") {
				continue
			}
			src, err := os.ReadFile(filepath.Join(dir, name))
			if err != nil {
				die("%v", err)
			}
			if bytes.Contains(src, []byte("//go:build !verif")) || bytes.Contains(src, []byte("//go:build ignore")) {
				continue
			}
			f, err := parser.ParseFile(token.NewFileSet(), name, src, 0)
			if err != nil {
				die("parse %s: %v", name, err)
			}
			ast.Inspect(f, func(n ast.Node) bool {
				gs, ok := n.(*ast.GoStmt)
				if !ok {
					return true
				}
				switch fn := gs.Call.Fun.(type) {
				case *ast.Ident:
					out[pkg][fn.Name] = true
				case *ast.SelectorExpr:
					// only methods and functions of this package can be instrumented; a
					// selector on an imported package name simply finds no declaration here
					out[pkg][fn.Sel.Name] = true
				}
				return true
			})
		}
	}
	return out
}
