package main

// Type-checked discovery of every range statement over a map in the
// instrumented packages. Go randomises map iteration order from a source
// the simulator cannot seed; each such statement is rewritten to iterate
// simhook.OrderedKeys (sorted keys, rotated by a scheduler choice).

import (
	"fmt"
	"go/ast"
	"go/build"
	"go/importer"
	"go/parser"
	"go/token"
	"go/types"
	"io"
	"os"
	"os/exec"
	"path/filepath"
	"strings"
)

type mapRange struct {
	ordered bool   // key type satisfies cmp.Ordered
	fn      string // enclosing function
	labeled bool   // statement carries a label
}

// findMapRanges returns, per file path, the offsets of the `for` keyword of
// every range statement over a map.
func findMapRanges(absRepo string, pkgs []string) map[string]map[int]*mapRange {
	out := map[string]map[int]*mapRange{}
	ctx := build.Default
	ctx.BuildTags = append(ctx.BuildTags, "verif")
	build.Default = ctx // the source importer reads build.Default
	fset := token.NewFileSet()
	// export data of every dependency, from the build cache
	exports := map[string]string{}
	args := []string{"list", "-tags", "verif", "-export", "-deps", "-f", "{{.ImportPath}} {{.Export}}"}
	for _, p := range pkgs {
		args = append(args, "./"+p)
	}
	cmd := exec.Command(goBin(), args...)
	cmd.Dir = absRepo
	cmd.Stderr = os.Stderr
	lst, err := cmd.Output()
	if err != nil {
		fmt.Fprintf(os.Stderr, "overlaygen: warning: go list -export failed: %v (map ranges not analysed)\n", err)
		return out
	}
	for _, l := range strings.Split(string(lst), "\n") {
		if f := strings.Fields(l); len(f) == 2 {
			exports[f[0]] = f[1]
		}
	}
	imp := importer.ForCompiler(fset, "gc", func(path string) (io.ReadCloser, error) {
		f, ok := exports[path]
		if !ok {
			return nil, fmt.Errorf("no export data for %s", path)
		}
		return os.Open(f)
	})
	for _, pkg := range pkgs {
		dir := filepath.Join(absRepo, pkg)
		bp, err := ctx.ImportDir(dir, 0)
		if err != nil {
			fmt.Fprintf(os.Stderr, "overlaygen: warning: %s: %v (map ranges not analysed)\n", dir, err)
			continue
		}
		var files []*ast.File
		for _, name := range bp.GoFiles {
			f, err := parser.ParseFile(fset, filepath.Join(dir, name), nil, 0)
			if err != nil {
				die("parse %s: %v", name, err)
			}
			files = append(files, f)
		}
		info := &types.Info{Types: map[ast.Expr]types.TypeAndValue{}}
		conf := types.Config{Importer: imp, Error: func(error) {}}
		conf.Check(bp.ImportPath, fset, files, info)
		for _, f := range files {
			path := fset.Position(f.Pos()).Filename
			for _, d := range f.Decls {
				fd, ok := d.(*ast.FuncDecl)
				if !ok || fd.Body == nil {
					continue
				}
				labeled := map[ast.Stmt]bool{}
				ast.Inspect(fd.Body, func(n ast.Node) bool {
					if l, ok := n.(*ast.LabeledStmt); ok {
						labeled[l.Stmt] = true
					}
					r, ok := n.(*ast.RangeStmt)
					if !ok {
						return true
					}
					tv, ok := info.Types[r.X]
					if !ok || tv.Type == nil {
						return true
					}
					m, ok := tv.Type.Underlying().(*types.Map)
					if !ok {
						return true
					}
					ord := false
					if b, ok := m.Key().Underlying().(*types.Basic); ok && b.Info()&types.IsOrdered != 0 {
						ord = true
					}
					if out[path] == nil {
						out[path] = map[int]*mapRange{}
					}
					out[path][fset.Position(r.Pos()).Offset] = &mapRange{ordered: ord, fn: fd.Name.Name, labeled: labeled[r]}
					return true
				})
			}
		}
	}
	return out
}

func goBin() string {
	if v := os.Getenv("VERIF_GO"); v != "" {
		return v
	}
	return "go1.26.8"
}
