#!/usr/bin/env python3
"""Generates MANIFEST.json from checks.json (+ texts below). Run after editing checks.json."""
import json,subprocess
checks=json.load(open('checks.json'))
NA={
 "C01":"encode/decode round trip is a pure function of one value; there is no schedule, clock, peer or fault for a simulator to control, and generating values would be input generation dressed up as simulation",
 "C02":"decoding one byte string is a pure single-threaded function with no schedule, clock, peer or fault in it; its stream analogue (C13) is decided instead (two unbounded-allocation defects of the decoder did surface through C13's hostile streams and were repaired, DESIGN.md 12.7, but the for-all-bytes statement of C02 itself is not claimed)",
 "C03":"decode-encode-decode of one input is a pure function",
 "C04":"NodeID string form and equality are pure functions",
 "C14":"key derivation and direction separation are pure functions of two nonces (exercised incidentally by the reference codec, not claimed)",
 "C15":"RSA encrypt/decrypt/sign/verify for one input and key is pure",
 "C24":"SelectEndpoint over one list is pure",
 "C38":"arithmetic of the maximum body size over all chunk sizes is pure and unbounded in a way sampling cannot settle; C07's wire invariant covers emitted chunks only",
}
TEXT={
 "C05":("real uacp.Conn (both the dialing and the accepting side, real handshake) is fed frame streams by a raw peer over the simulated TCP under seeded segmentation (whole writes, coalesced, random splits, 1-16 byte segments), latency and EOF at any byte; oracle: returned frames equal sent ones up to the first malformed/ERR/EOF position, where Receive must return an error; pending Receive must return once input is delivered","6 C05"),
 "C12":("the receiver must deliver exactly the non-aborted messages with identical payloads and report aborts for their request ids only","6 C12"),
 "C13":("process-level oracle (no panic), bounded return after the input is delivered or the peer closed, and a bound on the bytes held for incomplete messages read through an observation hook","6 C13"),
 "C06":("wire oracle on chunk sizes against what each side announced; chunks of exactly the entitled size must be accepted; messages over a peer limit must fail at the sender without reaching the wire","6 C06"),
 "C07":("every message must come out of the peer's Receive with an identical payload; the wire oracle checks each emitted chunk's size against the negotiated chunk size and its MessageSize field and reassembles the chunks","6 C07"),
 "C08":("an independent implementation of the Part 6 secure conversation layout (written from the specification, standard library only) opens every chunk gopcua emits and gopcua accepts every chunk it produces, both roles","6 C08"),
 "C09":("no message that was not sent may come out of either receiver, the message containing the modified chunk must not be delivered, the process must not panic","6 C09"),
 "C10":("every request id comes out of the server channel's Receive at most once and every response handler runs at most once although a chunk was re-inserted verbatim","6 C10"),
 "C11":("wire oracle on every chunk the client writes: +1 numbering with legal wrap and contiguity of a message's chunks, under scheduler-controlled interleavings of senders and renewals","6 C11"),
 "C16":("renewal timing window judged from the wire in simulated time; zero failed requests and no channel error on a fault-free network around renewals","6 C16"),
 "C17":("responses forged under superseded tokens are injected before and after the token's lifetime + 25%; after expiry the call must not return the forged body","6 C17"),
 "C18":("every call that returns nil must have been handed the response carrying its own marker; no marker may be handed out twice; unsolicited responses must never be delivered","6 C18"),
 "C19":("bounded liveness in simulated time: each call returns by its time-out + 250 ms (or at cancellation), the pending-handler table returns to its size, later requests succeed; response/timer ties are scheduled in both orders","6 C19"),
 "C20":("delivered messages are retained by reference with a snapshot of their encoding and compared after later traffic on the same and on another connection","6 C20"),
 "C21":("process-level oracle: any panic in a client goroutine kills the worker and is the violation; every operation must return a value or an error","6 C21"),
 "C22":("Connect must succeed iff the signature is valid; otherwise it must return an error, the client must not be Connected, no ActivateSession may be sent, and nothing may panic","6 C22"),
 "C23":("programs of client constructions; what each client announces on the wire is compared with its own options or the documented defaults","6 C23"),
 "C25":("real client against a real server over the simulated network; seeded fault sequences (reset, stall, outage, crash-restart) placed at protocol phases by frame count; state callback sequence checked against the documented meanings, bounded-liveness after the last fault (state Connected and a Read succeeds), Close returns, no dial and no client goroutine afterwards","6 C25"),
 "C26":("after the last fault plus a recovery bound every subscription must deliver a freshly written value for each item; acknowledgements are checked over the decoded wire history","6 C26"),
 "C27":("bounded liveness: after the generated API calls every call has returned and PublishRequests keep flowing; the scheduler owns the hand-offs at the pause/resume sends and the select between the two signal channels, which is where the protocol breaks","6 C27"),
 "C28":("every delivered DataChangeMessage must name the node its (node-encoding) value belongs to, and after quiescence the last value delivered per still-monitored node must equal what a Read returns","6 C28"),
 "C29":("real server under hostile generated traffic from real and raw clients with a well-behaved canary; a panic anywhere in the server kills the worker and is the violation; canary reads must finish within 5 simulated seconds and a fresh client must still be able to connect","6 C29"),
 "C30":("a channel must open iff its (policy, mode) pair is in the configured set; irregular OpenSecureChannel requests must be refused; advertised endpoints must equal the configured pairs","6 C30"),
 "C31":("model-based: expected outcome of every read/write is computed from the access levels the node holds at that moment (read straight from the server object); one-sided as the statement","6 C31"),
 "C32":("model-based: live ids per session tracked by a reference model; every id handed out must differ from all live ones; operations on foreign or unknown ids must be refused and leave the server's tables unchanged (inspected directly)","6 C32"),
 "C33":("every Browse result is compared with an independent filter (direction, reference type with own subtype closure, class mask) over the node's raw reference list exported from the server","6 C33"),
 "C35":("requests of every session service are sent over a bare secure channel with null/random/not-activated/closed tokens; the service result must be Bad and the server's tables unchanged; the same requests through an activated session must succeed","6 C35"),
 "C36":("the Go race detector over free-running executions of the concurrent scenarios; a report whose access stacks contain gopcua frames is the violation","6 C36"),
 "C37":("complete enumeration of the supported configuration set; every configuration must complete discovery, connect, read, write and read-back","6 C37"),
 "C34":("several real clients against one real server under seeded latency and scheduling; invoke/return stamped with the simulator's event sequence; porcupine register model per node","6 C34"),
}
 
m={
 "version":1,
 "setup_cmd":"export GOFLAGS=-mod=mod GOPROXY=off GOSUMDB=off GOTOOLCHAIN=local; mkdir -p bin && go1.26.8 build -o bin/check ./cmd/check && go1.26.8 build -o bin/overlaygen ./cmd/overlaygen",
 "hooks":{"guard":"verif","enable":"go1.26.8 test -c -tags verif -overlay <generated by bin/overlaygen from /repo's working tree> (done by bin/check on every invocation; VERIF_REPO overrides /repo)",
   "baseline_off_cmd":"cd /repo && go build ./... && go test -vet=off -count=1 ./...",
   "source_commits":[l.split()[0] for l in subprocess.run("git -C /repo log --format='%h %s' 5effd8a..HEAD",shell=True,capture_output=True,text=True).stdout.splitlines() if 'fix:' not in l],
   "add_only":True},
 "engines":[{"name":"sim","path":"/verif/sim, /verif/scen, /verif/cmd/check","serves_properties":sorted(checks.keys()),"kind_free_text":"deterministic simulation: testing/synctest bubble per run, seeded scheduler releasing one parked goroutine at a time (scheduling points at every lock, at marked race windows and - generated from the working tree - before every plain channel send and at every goroutine start), simulated TCP with fault injection, slow-goroutine fault (a goroutine held for simulated time), on-path adversary and hostile keyed peers built on an independent reference codec, 16 worker processes with GOMAXPROCS=1; race mode: free-running -race build of the same scenarios"}],
 "checks":[],
 "notes":"one driver (bin/check) for all checks; exit 0 held / 1 VIOLATION / 2 harness or build trouble. known_findings.json lists catalogued genuine defects (open) and repaired ones (fixed). Every property is either claimed under checks or listed under not_applicable. The committed evidence files come from one sweep of every quick command under VERIF_SEED=1 after the last change to /repo and to the driver (DESIGN.md 12.6). seeded/ holds 58 independently written property-breaking changes (two sub-agent waves) with their demonstrations and the result of the quick check against each (DESIGN.md 12.7).",
 "not_applicable":[{"property_id":k,"reason":v} for k,v in NA.items()]
}
for pid in sorted(checks):
    c=checks[pid]
    text,ref=TEXT.get(pid,("see DESIGN.md","6 "+pid))
    m["checks"].append({
      "property_id":pid,
      "quick_cmd":f"./bin/check {pid} --tier quick",
      "thorough_cmd":f"./bin/check {pid} --tier thorough",
      "evidence_file":f"/verif/evidence/{pid}.json",
      "replay_cmd_template":f"./bin/check {pid} --replay {{path}}",
      "engine":"sim",
      "level_claimed":{"category":c["level"],"text":text,"design_ref":"DESIGN.md section "+ref},
      "level_note":"; ".join(c.get("assumptions",[]))+"; trusted: Go 1.26.8 runtime and testing/synctest, the overlay rewrite (mutex/once swap), the simulated TCP model",
      "technique":"deterministic simulation with fault injection (seeded scheduler + simulated network + fake clock), "+("porcupine linearizability check of the recorded history" if pid=="C34" else "oracle checked during and after each run"),
    })
json.dump(m,open('MANIFEST.json','w'),indent=1)
print(len(m["checks"]),"checks")
