module verif

go 1.26.8

require (
	github.com/anishathalye/porcupine v1.3.0
	github.com/gopcua/opcua v0.0.0
)

replace github.com/gopcua/opcua => /repo
