package refcodec

// Secure conversation cryptography written from OPC UA Part 6 (6.7, 6.8) and
// the security profiles of Part 7, with the Go standard library only. Nothing
// here is taken from gopcua's uapolicy package: algorithm choices and lengths
// per policy are tabulated below from the profile descriptions.

import (
	"crypto"
	"crypto/aes"
	"crypto/cipher"
	"crypto/hmac"
	"crypto/rand"
	"crypto/rsa"
	"crypto/sha1"
	"crypto/sha256"
	"encoding/binary"
	"errors"
	"fmt"
	"hash"
)

const uriBase = "http://opcfoundation.org/UA/SecurityPolicy#"

// Policy describes one security profile.
type Policy struct {
	URI string
	// symmetric
	SymSigLen int  // HMAC output
	SymSigKey int  // derived signing key length
	SymEncKey int  // derived encryption key length
	SymBlock  int  // AES block size
	sha256    bool // HMAC / P_hash function: SHA-256 (else SHA-1)
	NonceLen  int
	// asymmetric
	asymSig    string // "pkcs15-sha1", "pkcs15-sha256", "pss-sha256"
	asymEnc    string // "pkcs15", "oaep-sha1", "oaep-sha256"
	MinKeyBits int
	MaxKeyBits int
}

var Policies = map[string]*Policy{
	"Basic128Rsa15":         {URI: uriBase + "Basic128Rsa15", SymSigLen: 20, SymSigKey: 16, SymEncKey: 16, SymBlock: 16, NonceLen: 16, asymSig: "pkcs15-sha1", asymEnc: "pkcs15", MinKeyBits: 1024, MaxKeyBits: 2048},
	"Basic256":              {URI: uriBase + "Basic256", SymSigLen: 20, SymSigKey: 24, SymEncKey: 32, SymBlock: 16, NonceLen: 32, asymSig: "pkcs15-sha1", asymEnc: "oaep-sha1", MinKeyBits: 1024, MaxKeyBits: 2048},
	"Basic256Sha256":        {URI: uriBase + "Basic256Sha256", SymSigLen: 32, SymSigKey: 32, SymEncKey: 32, SymBlock: 16, sha256: true, NonceLen: 32, asymSig: "pkcs15-sha256", asymEnc: "oaep-sha1", MinKeyBits: 2048, MaxKeyBits: 4096},
	"Aes128_Sha256_RsaOaep": {URI: uriBase + "Aes128_Sha256_RsaOaep", SymSigLen: 32, SymSigKey: 32, SymEncKey: 16, SymBlock: 16, sha256: true, NonceLen: 32, asymSig: "pkcs15-sha256", asymEnc: "oaep-sha1", MinKeyBits: 2048, MaxKeyBits: 4096},
	"Aes256_Sha256_RsaPss":  {URI: uriBase + "Aes256_Sha256_RsaPss", SymSigLen: 32, SymSigKey: 32, SymEncKey: 32, SymBlock: 16, sha256: true, NonceLen: 32, asymSig: "pss-sha256", asymEnc: "oaep-sha256", MinKeyBits: 2048, MaxKeyBits: 4096},
}

// PolicyByURI finds a policy by its URI.
func PolicyByURI(uri string) *Policy {
	for _, p := range Policies {
		if p.URI == uri {
			return p
		}
	}
	return nil
}

func (p *Policy) newHash() func() hash.Hash {
	if p.sha256 {
		return sha256.New
	}
	return sha1.New
}

// pHash is the P_SHA1 / P_SHA256 pseudo random function of Part 6, 6.7.5.
func pHash(h func() hash.Hash, secret, seed []byte, n int) []byte {
	var out []byte
	a := seed
	for len(out) < n {
		m := hmac.New(h, secret)
		m.Write(a)
		a = m.Sum(nil)
		m = hmac.New(h, secret)
		m.Write(a)
		m.Write(seed)
		out = append(out, m.Sum(nil)...)
	}
	return out[:n]
}

// SymKeys are the keys one side uses to protect what it sends.
type SymKeys struct {
	Sign, Enc, IV []byte
}

// DeriveKeys derives the symmetric keys from the two nonces:
// the client's keys come from P_hash(secret = server nonce, seed = client nonce),
// the server's from P_hash(secret = client nonce, seed = server nonce);
// each key block is signing key | encryption key | initialisation vector.
func (p *Policy) DeriveKeys(clientNonce, serverNonce []byte) (client, server SymKeys) {
	cut := func(b []byte) SymKeys {
		return SymKeys{Sign: b[:p.SymSigKey], Enc: b[p.SymSigKey : p.SymSigKey+p.SymEncKey], IV: b[p.SymSigKey+p.SymEncKey:]}
	}
	n := p.SymSigKey + p.SymEncKey + p.SymBlock
	client = cut(pHash(p.newHash(), serverNonce, clientNonce, n))
	server = cut(pHash(p.newHash(), clientNonce, serverNonce, n))
	return
}

func (p *Policy) symSign(key, data []byte) []byte {
	m := hmac.New(p.newHash(), key)
	m.Write(data)
	return m.Sum(nil)
}

// Mode of a channel.
type Mode int

const (
	ModeSign           Mode = 2
	ModeSignAndEncrypt Mode = 3
)

// SealSym protects a plain MSG/CLO chunk (as built by Chunk.EncodePlain)
// with the sender's keys.
func (p *Policy) SealSym(plain []byte, keys SymKeys, mode Mode) ([]byte, error) {
	return p.SealSymPadClaim(plain, keys, mode, -1)
}

// SealSymPadClaim is SealSym for a hostile sender: the chunk is signed and
// encrypted correctly but, if claim >= 0, its PaddingSize byte claims that
// many padding bytes whatever the real number is.
func (p *Policy) SealSymPadClaim(plain []byte, keys SymKeys, mode Mode, claim int) ([]byte, error) {
	const hdr = 16 // UACP header, channel id, token id
	if len(plain) < hdr+8 {
		return nil, errors.New("refcodec: chunk too short")
	}
	out := append([]byte(nil), plain...)
	if mode == ModeSignAndEncrypt {
		// padding so that sequence header + body + padding + signature fills whole blocks
		n := len(out) - hdr + 1 + p.SymSigLen
		pad := (p.SymBlock - n%p.SymBlock) % p.SymBlock
		for i := 0; i <= pad; i++ {
			out = append(out, byte(pad))
		}
		if claim >= 0 {
			out[len(out)-1] = byte(claim)
		}
	}
	binary.LittleEndian.PutUint32(out[4:], uint32(len(out)+p.SymSigLen))
	out = append(out, p.symSign(keys.Sign, out)...)
	if mode == ModeSignAndEncrypt {
		blk, err := aes.NewCipher(keys.Enc)
		if err != nil {
			return nil, err
		}
		if (len(out)-hdr)%p.SymBlock != 0 {
			return nil, errors.New("refcodec: internal padding error")
		}
		cipher.NewCBCEncrypter(blk, keys.IV).CryptBlocks(out[hdr:], out[hdr:])
	}
	return out, nil
}

// OpenSym verifies (and decrypts) a MSG/CLO chunk with the sender's keys
// and returns it in the plain layout (headers, sequence header, body).
func (p *Policy) OpenSym(frame []byte, keys SymKeys, mode Mode) ([]byte, error) {
	const hdr = 16
	if len(frame) < hdr+8+p.SymSigLen {
		return nil, errors.New("refcodec: secured chunk too short")
	}
	if int(binary.LittleEndian.Uint32(frame[4:])) != len(frame) {
		return nil, errors.New("refcodec: size field does not match frame length")
	}
	out := append([]byte(nil), frame...)
	if mode == ModeSignAndEncrypt {
		if (len(out)-hdr)%p.SymBlock != 0 {
			return nil, fmt.Errorf("refcodec: encrypted part (%d bytes) is not a whole number of cipher blocks", len(out)-hdr)
		}
		blk, err := aes.NewCipher(keys.Enc)
		if err != nil {
			return nil, err
		}
		cipher.NewCBCDecrypter(blk, keys.IV).CryptBlocks(out[hdr:], out[hdr:])
	}
	sig := out[len(out)-p.SymSigLen:]
	if !hmac.Equal(sig, p.symSign(keys.Sign, out[:len(out)-p.SymSigLen])) {
		return nil, errors.New("refcodec: symmetric signature does not verify")
	}
	out = out[:len(out)-p.SymSigLen]
	if mode == ModeSignAndEncrypt {
		pad := int(out[len(out)-1])
		if pad+1 > len(out)-hdr-8 {
			return nil, errors.New("refcodec: padding size larger than chunk")
		}
		for _, b := range out[len(out)-1-pad:] {
			if int(b) != pad {
				return nil, errors.New("refcodec: padding bytes do not all carry the padding size")
			}
		}
		out = out[:len(out)-1-pad]
	}
	binary.LittleEndian.PutUint32(out[4:], uint32(len(out)))
	return out, nil
}

func (p *Policy) asymSigLen(priv *rsa.PrivateKey) int { return priv.Size() }

func (p *Policy) asymSign(priv *rsa.PrivateKey, data []byte) ([]byte, error) {
	switch p.asymSig {
	case "pkcs15-sha1":
		d := sha1.Sum(data)
		return rsa.SignPKCS1v15(rand.Reader, priv, crypto.SHA1, d[:])
	case "pkcs15-sha256":
		d := sha256.Sum256(data)
		return rsa.SignPKCS1v15(rand.Reader, priv, crypto.SHA256, d[:])
	default:
		d := sha256.Sum256(data)
		return rsa.SignPSS(rand.Reader, priv, crypto.SHA256, d[:], &rsa.PSSOptions{SaltLength: rsa.PSSSaltLengthEqualsHash})
	}
}

func (p *Policy) asymVerify(pub *rsa.PublicKey, data, sig []byte) error {
	switch p.asymSig {
	case "pkcs15-sha1":
		d := sha1.Sum(data)
		return rsa.VerifyPKCS1v15(pub, crypto.SHA1, d[:], sig)
	case "pkcs15-sha256":
		d := sha256.Sum256(data)
		return rsa.VerifyPKCS1v15(pub, crypto.SHA256, d[:], sig)
	default:
		d := sha256.Sum256(data)
		return rsa.VerifyPSS(pub, crypto.SHA256, d[:], sig, &rsa.PSSOptions{SaltLength: rsa.PSSSaltLengthEqualsHash})
	}
}

// plaintext block size of the asymmetric encryption for a key.
func (p *Policy) asymPlainBlock(pub *rsa.PublicKey) int {
	switch p.asymEnc {
	case "pkcs15":
		return pub.Size() - 11
	case "oaep-sha1":
		return pub.Size() - 42
	default:
		return pub.Size() - 66
	}
}

func (p *Policy) asymEncryptBlock(pub *rsa.PublicKey, b []byte) ([]byte, error) {
	switch p.asymEnc {
	case "pkcs15":
		return rsa.EncryptPKCS1v15(rand.Reader, pub, b)
	case "oaep-sha1":
		return rsa.EncryptOAEP(sha1.New(), rand.Reader, pub, b, nil)
	default:
		return rsa.EncryptOAEP(sha256.New(), rand.Reader, pub, b, nil)
	}
}

func (p *Policy) asymDecryptBlock(priv *rsa.PrivateKey, b []byte) ([]byte, error) {
	switch p.asymEnc {
	case "pkcs15":
		return rsa.DecryptPKCS1v15(rand.Reader, priv, b)
	case "oaep-sha1":
		return rsa.DecryptOAEP(sha1.New(), rand.Reader, priv, b, nil)
	default:
		return rsa.DecryptOAEP(sha256.New(), rand.Reader, priv, b, nil)
	}
}

// SealAsym protects a plain OPN chunk: signed with the sender's private key,
// encrypted (always, for OPN of a secured policy) with the receiver's public key.
func (p *Policy) SealAsym(plain []byte, senderKey *rsa.PrivateKey, receiverPub *rsa.PublicKey) ([]byte, error) {
	return p.SealAsymPadClaim(plain, senderKey, receiverPub, -1)
}

// SealAsymPadClaim is SealAsym for a hostile sender (see SealSymPadClaim).
func (p *Policy) SealAsymPadClaim(plain []byte, senderKey *rsa.PrivateKey, receiverPub *rsa.PublicKey, claim int) ([]byte, error) {
	hdr, err := SecurityHeaderLen(plain)
	if err != nil {
		return nil, err
	}
	sigLen := p.asymSigLen(senderKey)
	plainBlock := p.asymPlainBlock(receiverPub)
	cipherBlock := receiverPub.Size()
	extra := receiverPub.Size() > 256 // keys longer than 2048 bits need the ExtraPaddingSize byte
	out := append([]byte(nil), plain...)
	overhead := 1 + sigLen
	if extra {
		overhead++
	}
	n := len(out) - hdr + overhead
	pad := (plainBlock - n%plainBlock) % plainBlock
	for i := 0; i <= pad; i++ {
		out = append(out, byte(pad))
	}
	if claim >= 0 {
		out[len(out)-1] = byte(claim)
	}
	if extra {
		out = append(out, byte(pad>>8))
		if claim >= 0 {
			out[len(out)-1] = byte(claim >> 8)
		}
	}
	toEncrypt := len(out) - hdr + sigLen
	if toEncrypt%plainBlock != 0 {
		return nil, errors.New("refcodec: internal asymmetric padding error")
	}
	finalSize := hdr + toEncrypt/plainBlock*cipherBlock
	binary.LittleEndian.PutUint32(out[4:], uint32(finalSize))
	sig, err := p.asymSign(senderKey, out)
	if err != nil {
		return nil, err
	}
	out = append(out, sig...)
	res := append([]byte(nil), out[:hdr]...)
	for off := hdr; off < len(out); off += plainBlock {
		c, err := p.asymEncryptBlock(receiverPub, out[off:off+plainBlock])
		if err != nil {
			return nil, err
		}
		res = append(res, c...)
	}
	return res, nil
}

// OpenAsym decrypts an OPN chunk with the receiver's private key, verifies
// the signature with the sender's public key and returns the plain layout.
func (p *Policy) OpenAsym(frame []byte, receiverKey *rsa.PrivateKey, senderPub *rsa.PublicKey) ([]byte, error) {
	hdr, err := SecurityHeaderLen(frame)
	if err != nil {
		return nil, err
	}
	if int(binary.LittleEndian.Uint32(frame[4:])) != len(frame) {
		return nil, errors.New("refcodec: size field does not match frame length")
	}
	cipherBlock := receiverKey.Size()
	if (len(frame)-hdr)%cipherBlock != 0 || len(frame) == hdr {
		return nil, fmt.Errorf("refcodec: encrypted part (%d bytes) is not a whole number of RSA blocks", len(frame)-hdr)
	}
	out := append([]byte(nil), frame[:hdr]...)
	for off := hdr; off < len(frame); off += cipherBlock {
		pl, err := p.asymDecryptBlock(receiverKey, frame[off:off+cipherBlock])
		if err != nil {
			return nil, fmt.Errorf("refcodec: RSA block does not decrypt: %v", err)
		}
		out = append(out, pl...)
	}
	sigLen := senderPub.Size()
	if len(out) < hdr+8+sigLen+1 {
		return nil, errors.New("refcodec: decrypted chunk too short")
	}
	sig := out[len(out)-sigLen:]
	if err := p.asymVerify(senderPub, out[:len(out)-sigLen], sig); err != nil {
		return nil, fmt.Errorf("refcodec: asymmetric signature does not verify: %v", err)
	}
	out = out[:len(out)-sigLen]
	pad := 0
	if receiverKey.Size() > 256 {
		pad = int(out[len(out)-1]) << 8
		out = out[:len(out)-1]
	}
	pad |= int(out[len(out)-1])
	if pad+1 > len(out)-hdr-8 {
		return nil, errors.New("refcodec: padding size larger than chunk")
	}
	for _, b := range out[len(out)-1-pad:] {
		if b != byte(pad) {
			return nil, errors.New("refcodec: padding bytes do not all carry the padding size")
		}
	}
	out = out[:len(out)-1-pad]
	binary.LittleEndian.PutUint32(out[4:], uint32(len(out)))
	return out, nil
}

// SignAsym signs data with the policy's asymmetric signature algorithm.
func (p *Policy) SignAsym(priv *rsa.PrivateKey, data []byte) ([]byte, error) {
	return p.asymSign(priv, data)
}

// VerifyAsym verifies an asymmetric signature.
func (p *Policy) VerifyAsym(pub *rsa.PublicKey, data, sig []byte) error {
	return p.asymVerify(pub, data, sig)
}

// AsymSignatureURI is the algorithm URI carried in SignatureData.
func (p *Policy) AsymSignatureURI() string {
	switch p.asymSig {
	case "pkcs15-sha1":
		return "http://www.w3.org/2000/09/xmldsig#rsa-sha1"
	case "pkcs15-sha256":
		return "http://www.w3.org/2001/04/xmldsig-more#rsa-sha256"
	}
	return "http://opcfoundation.org/UA/security/rsa-pss-sha2-256"
}
