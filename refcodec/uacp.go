// Package refcodec is an independent implementation of the OPC UA Part 6
// UACP and UASC wire formats, written from the specification with the Go
// standard library only. It does not import anything from gopcua.
package refcodec

import (
	"encoding/binary"
	"errors"
	"fmt"
	"io"
)

const HeaderSize = 8

// Frame builds a UACP frame: 3 byte type, 1 byte chunk flag, u32 total size.
func Frame(typ string, body []byte) []byte {
	if len(typ) != 4 {
		panic("refcodec: type must be 4 bytes, e.g. MSGF")
	}
	b := make([]byte, HeaderSize+len(body))
	copy(b, typ)
	binary.LittleEndian.PutUint32(b[4:], uint32(len(b)))
	copy(b[8:], body)
	return b
}

// FrameWithSize builds a frame whose size field lies.
func FrameWithSize(typ string, body []byte, size uint32) []byte {
	b := Frame(typ, body)
	binary.LittleEndian.PutUint32(b[4:], size)
	return b
}

type Hello struct {
	Version, RecvBuf, SendBuf, MaxMsg, MaxChunks uint32
	Endpoint                                     string
}

type Ack struct {
	Version, RecvBuf, SendBuf, MaxMsg, MaxChunks uint32
}

func putString(b []byte, s string) []byte {
	b = binary.LittleEndian.AppendUint32(b, uint32(len(s)))
	return append(b, s...)
}

func (h Hello) Frame() []byte {
	var b []byte
	for _, v := range []uint32{h.Version, h.RecvBuf, h.SendBuf, h.MaxMsg, h.MaxChunks} {
		b = binary.LittleEndian.AppendUint32(b, v)
	}
	b = putString(b, h.Endpoint)
	return Frame("HELF", b)
}

func (a Ack) Frame() []byte {
	var b []byte
	for _, v := range []uint32{a.Version, a.RecvBuf, a.SendBuf, a.MaxMsg, a.MaxChunks} {
		b = binary.LittleEndian.AppendUint32(b, v)
	}
	return Frame("ACKF", b)
}

func ErrFrame(code uint32, reason string) []byte {
	b := binary.LittleEndian.AppendUint32(nil, code)
	b = putString(b, reason)
	return Frame("ERRF", b)
}

// ReadFrame reads one frame from r. max bounds the accepted size.
func ReadFrame(r io.Reader, max int) ([]byte, error) {
	hdr := make([]byte, HeaderSize)
	if _, err := io.ReadFull(r, hdr); err != nil {
		return nil, err
	}
	sz := int(binary.LittleEndian.Uint32(hdr[4:]))
	if sz < HeaderSize || sz > max {
		return nil, fmt.Errorf("refcodec: bad frame size %d", sz)
	}
	b := make([]byte, sz)
	copy(b, hdr)
	if _, err := io.ReadFull(r, b[HeaderSize:]); err != nil {
		return nil, err
	}
	return b, nil
}

func ParseHello(frame []byte) (Hello, error) {
	var h Hello
	if len(frame) < HeaderSize+24 || string(frame[:4]) != "HELF" {
		return h, errors.New("refcodec: not a HEL frame")
	}
	b := frame[HeaderSize:]
	h.Version = binary.LittleEndian.Uint32(b[0:])
	h.RecvBuf = binary.LittleEndian.Uint32(b[4:])
	h.SendBuf = binary.LittleEndian.Uint32(b[8:])
	h.MaxMsg = binary.LittleEndian.Uint32(b[12:])
	h.MaxChunks = binary.LittleEndian.Uint32(b[16:])
	n := int32(binary.LittleEndian.Uint32(b[20:]))
	if n > 0 {
		if len(b) < 24+int(n) {
			return h, errors.New("refcodec: short HEL")
		}
		h.Endpoint = string(b[24 : 24+int(n)])
	}
	return h, nil
}

func ParseAck(frame []byte) (Ack, error) {
	var a Ack
	if len(frame) < HeaderSize+20 || string(frame[:4]) != "ACKF" {
		return a, errors.New("refcodec: not an ACK frame")
	}
	b := frame[HeaderSize:]
	a.Version = binary.LittleEndian.Uint32(b[0:])
	a.RecvBuf = binary.LittleEndian.Uint32(b[4:])
	a.SendBuf = binary.LittleEndian.Uint32(b[8:])
	a.MaxMsg = binary.LittleEndian.Uint32(b[12:])
	a.MaxChunks = binary.LittleEndian.Uint32(b[16:])
	return a, nil
}

// FrameType returns the 4 byte type of a frame ("MSGF", ...), or "".
func FrameType(frame []byte) string {
	if len(frame) < 4 {
		return ""
	}
	return string(frame[:4])
}

// ServiceTypeID returns the numeric id of the service type carried by the
// first chunk of a MSG/OPN/CLO frame in security mode None (plaintext):
// 8 byte UACP header, 4 byte channel id, security header, 8 byte sequence
// header, then the ExpandedNodeId of the body type.
func ServiceTypeID(frame []byte) (uint16, bool) {
	if len(frame) < 12 {
		return 0, false
	}
	off := 12
	switch string(frame[:3]) {
	case "MSG", "CLO":
		off += 4 // token id
	case "OPN":
		// policy uri, sender cert, receiver thumbprint (each i32 length + bytes)
		for i := 0; i < 3; i++ {
			if len(frame) < off+4 {
				return 0, false
			}
			n := int32(binary.LittleEndian.Uint32(frame[off:]))
			off += 4
			if n > 0 {
				off += int(n)
			}
		}
	default:
		return 0, false
	}
	off += 8 // sequence header
	if len(frame) < off+4 {
		return 0, false
	}
	switch frame[off] {
	case 1: // four byte node id: ns byte, u16 id
		return binary.LittleEndian.Uint16(frame[off+2:]), true
	case 0: // two byte
		return uint16(frame[off+1]), true
	}
	return 0, false
}

// SeqHeader returns sequence number and request id of a None-mode chunk.
func SeqHeader(frame []byte) (seq, reqID uint32, ok bool) {
	if len(frame) < 12 {
		return 0, 0, false
	}
	off := 12
	switch string(frame[:3]) {
	case "MSG", "CLO":
		off += 4
	case "OPN":
		for i := 0; i < 3; i++ {
			if len(frame) < off+4 {
				return 0, 0, false
			}
			n := int32(binary.LittleEndian.Uint32(frame[off:]))
			off += 4
			if n > 0 {
				off += int(n)
			}
		}
	default:
		return 0, 0, false
	}
	if len(frame) < off+8 {
		return 0, 0, false
	}
	return binary.LittleEndian.Uint32(frame[off:]), binary.LittleEndian.Uint32(frame[off+4:]), true
}
