package refcodec

import (
	"encoding/binary"
	"errors"
)

const PolicyNone = "http://opcfoundation.org/UA/SecurityPolicy#None"

// Chunk is a parsed secure conversation chunk whose sequence header and body
// are in plaintext (security mode None, or after decryption).
type Chunk struct {
	Type      string // "MSG", "OPN", "CLO"
	ChunkType byte   // 'F', 'C', 'A'
	ChannelID uint32
	TokenID   uint32 // MSG / CLO
	PolicyURI string // OPN
	Cert      []byte // OPN sender certificate
	Thumb     []byte // OPN receiver thumbprint
	Seq       uint32
	RequestID uint32
	Body      []byte
	hdrLen    int // length of everything before the sequence header
}

func putBytes(b, v []byte) []byte {
	if v == nil {
		return binary.LittleEndian.AppendUint32(b, 0xffffffff)
	}
	b = binary.LittleEndian.AppendUint32(b, uint32(len(v)))
	return append(b, v...)
}

func getBytes(b []byte, off int) ([]byte, int, error) {
	if len(b) < off+4 {
		return nil, off, errors.New("refcodec: short buffer")
	}
	n := int32(binary.LittleEndian.Uint32(b[off:]))
	off += 4
	if n < 0 {
		return nil, off, nil
	}
	if len(b) < off+int(n) {
		return nil, off, errors.New("refcodec: short buffer")
	}
	return b[off : off+int(n)], off + int(n), nil
}

// SecurityHeaderLen returns the length of UACP header + channel id +
// security header of a frame (i.e. the offset of the sequence header).
func SecurityHeaderLen(frame []byte) (int, error) {
	if len(frame) < 12 {
		return 0, errors.New("refcodec: short frame")
	}
	switch string(frame[:3]) {
	case "MSG", "CLO":
		return 16, nil
	case "OPN":
		off := 12
		var err error
		for i := 0; i < 3; i++ {
			if _, off, err = getBytes(frame, off); err != nil {
				return 0, err
			}
		}
		return off, nil
	}
	return 0, errors.New("refcodec: not a secure conversation frame")
}

// ParsePlainChunk parses a chunk whose sequence header and body are plaintext.
func ParsePlainChunk(frame []byte) (*Chunk, error) {
	n, err := SecurityHeaderLen(frame)
	if err != nil {
		return nil, err
	}
	if int(binary.LittleEndian.Uint32(frame[4:])) != len(frame) {
		return nil, errors.New("refcodec: size field does not match frame length")
	}
	c := &Chunk{Type: string(frame[:3]), ChunkType: frame[3], ChannelID: binary.LittleEndian.Uint32(frame[8:]), hdrLen: n}
	if c.Type == "OPN" {
		off := 12
		var p []byte
		p, off, _ = getBytes(frame, off)
		c.PolicyURI = string(p)
		c.Cert, off, _ = getBytes(frame, off)
		c.Thumb, _, _ = getBytes(frame, off)
	} else {
		c.TokenID = binary.LittleEndian.Uint32(frame[12:])
	}
	if len(frame) < n+8 {
		return nil, errors.New("refcodec: no sequence header")
	}
	c.Seq = binary.LittleEndian.Uint32(frame[n:])
	c.RequestID = binary.LittleEndian.Uint32(frame[n+4:])
	c.Body = frame[n+8:]
	return c, nil
}

// header bytes up to (excluding) the sequence header; size is patched later.
func (c *Chunk) securityHeader() []byte {
	b := []byte(c.Type)
	b = append(b, c.ChunkType)
	b = binary.LittleEndian.AppendUint32(b, 0)
	b = binary.LittleEndian.AppendUint32(b, c.ChannelID)
	if c.Type == "OPN" {
		b = putBytes(b, []byte(c.PolicyURI))
		b = putBytes(b, c.Cert)
		b = putBytes(b, c.Thumb)
	} else {
		b = binary.LittleEndian.AppendUint32(b, c.TokenID)
	}
	return b
}

// EncodePlain builds the chunk without any signature or encryption.
func (c *Chunk) EncodePlain() []byte {
	b := c.securityHeader()
	b = binary.LittleEndian.AppendUint32(b, c.Seq)
	b = binary.LittleEndian.AppendUint32(b, c.RequestID)
	b = append(b, c.Body...)
	binary.LittleEndian.PutUint32(b[4:], uint32(len(b)))
	return b
}

// SplitBody splits body into pieces of at most max bytes at the given cut
// points (nil: equal pieces of max). Always returns at least one piece.
func SplitBody(body []byte, cuts []int) [][]byte {
	var out [][]byte
	prev := 0
	for _, c := range cuts {
		if c <= prev || c >= len(body) {
			continue
		}
		out = append(out, body[prev:c])
		prev = c
	}
	out = append(out, body[prev:])
	return out
}

// AbortBody is the body of an abort ('A') chunk.
func AbortBody(code uint32, reason string) []byte {
	b := binary.LittleEndian.AppendUint32(nil, code)
	return putString(b, reason)
}

// Reassembler collects chunks per request id.
type Reassembler struct {
	parts map[uint32][][]byte
}

func NewReassembler() *Reassembler { return &Reassembler{parts: map[uint32][][]byte{}} }

// Add returns the complete message body when c is a final chunk.
func (r *Reassembler) Add(c *Chunk) (body []byte, done bool, aborted bool) {
	switch c.ChunkType {
	case 'A':
		delete(r.parts, c.RequestID)
		return nil, true, true
	case 'C':
		r.parts[c.RequestID] = append(r.parts[c.RequestID], c.Body)
		return nil, false, false
	}
	for _, p := range r.parts[c.RequestID] {
		body = append(body, p...)
	}
	body = append(body, c.Body...)
	delete(r.parts, c.RequestID)
	return body, true, false
}
