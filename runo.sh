#!/bin/bash
# dev helper with overlay: runo.sh <scenario> <start:count:stride>
export GOFLAGS=-mod=mod GOPROXY=off GOSUMDB=off GOTOOLCHAIN=local
cd /verif
mkdir -p .build/${DEV:-dev}
if [ -z "$NOBUILD" ]; then
./bin/overlaygen -repo ${VERIF_REPO:-/repo} -out .build/${DEV:-dev}/overlay >/dev/null || exit 2
sed "s#=> /repo#=> ${VERIF_REPO:-/repo}#" go.mod > .build/${DEV:-dev}/go.mod; cp go.sum .build/${DEV:-dev}/go.sum
go1.26.8 test -c -tags verif -vet=off -overlay .build/${DEV:-dev}/overlay/overlay.json -modfile .build/${DEV:-dev}/go.mod -o .build/${DEV:-dev}/scen.test ./scen || exit 2
fi
VERIF_SCEN=$1 VERIF_SEEDS=$2 GOMAXPROCS=1 timeout ${T:-600} .build/${DEV:-dev}/scen.test -test.cpu 1 -test.timeout 1h -test.run TestWorker 2>&1 | python3 -c "
import sys,json,collections
n=0;v=0;st=0;nt=0;h=set();pr=collections.Counter();fl=collections.Counter();sim=0;wall=0
for l in sys.stdin:
    if l.startswith('@@RES'):
        r=json.loads(l[6:]);n+=1;st+=r['steps'];nt+=r['nontrivial'];h.add(r['trace']);sim+=r['sim_ns'];wall+=r['wall_us']
        for k,c in (r.get('probes') or {}).items(): pr[k]+=c
        for k,c in (r.get('faults') or {}).items(): fl[k]+=c
        if r.get('violations'):
            v+=1
            for x in r['violations'][:${NV:-1}]: print(r['seed'],x['property'],x['kind'],x['sig'],x['detail'][:${D:-400}])
        if r.get('leaked') and '${LEAK:-}': print('leak',r['seed'],r['leaked'][:100])
        if '${HASH:-}': print(r['seed'],r['trace'],r['steps'])
    elif not l.startswith('@@RUN'): print(l.rstrip()[:${W:-400}])
print('runs',n,'viol',v,'steps',st,'nontrivial',nt,'distinct',len(h),'sim_s',sim/1e9,'wall_s',wall/1e6)
print('probes',dict(pr));print('faults',dict(fl))
"
