#!/bin/bash
# dev helper, race mode: runr.sh <scenario> <start> <count-per-proc> <procs>
# builds the -race worker with the overlay and runs <procs> processes side by side
export GOFLAGS=-mod=mod GOPROXY=off GOSUMDB=off GOTOOLCHAIN=local
cd /verif
D=.build/${DEV:-devr}
mkdir -p $D
if [ -z "$NOBUILD" ]; then
./bin/overlaygen -repo ${VERIF_REPO:-/repo} -out $D/overlay >/dev/null || exit 2
sed "s#=> /repo#=> ${VERIF_REPO:-/repo}#" go.mod > $D/go.mod; cp go.sum $D/go.sum
go1.26.8 test -c -race -tags "verif verifrace" -vet=off -overlay $D/overlay/overlay.json -modfile $D/go.mod -o $D/scen.race.test ./scen || exit 2
fi
scen=$1; start=$2; cnt=$3; procs=${4:-16}
for p in $(seq 0 $((procs-1))); do
  ( VERIF_RACE=1 GORACE=halt_on_error=1 VERIF_SCEN=$scen VERIF_SEEDS=$((start+p)):$cnt:$procs GOMAXPROCS=1 timeout ${T:-900} $D/scen.race.test -test.cpu 1 -test.timeout 1h -test.run TestWorker > $D/out.$p 2>&1 ) &
done
wait
for p in $(seq 0 $((procs-1))); do
  echo "proc $p: runs=$(grep -c '^@@RES' $D/out.$p) nontrivial=$(grep -c '"nontrivial":true' $D/out.$p) race=$(grep -c 'WARNING: DATA RACE' $D/out.$p)"
done
grep -h -A14 "WARNING: DATA RACE" $D/out.* | grep -v "^--" | grep -A1 "^\(Write\|Read\|Previous\)\|racewrite\|raceread" | grep "^    [a-z]" | grep -v "runtime.race" | sort | uniq -c | sort -rn | head -30
