#!/bin/bash
# dev helper: runw.sh <scenario> <start:count:stride>  -> summary
export GOFLAGS=-mod=mod GOPROXY=off GOSUMDB=off GOTOOLCHAIN=local
cd /verif
mkdir -p .build; [ -n "$NOBUILD" ] || go1.26.8 test -c -tags verif -vet=off -o .build/dev.test ./scen || exit 2
VERIF_SCEN=$1 VERIF_SEEDS=$2 timeout ${T:-300} .build/dev.test -test.cpu 1 -test.timeout 1h -test.run TestWorker 2>&1 | python3 -c "
import sys,json,collections
n=0;v=0;st=0;nt=0;h=set();pr=collections.Counter();fl=collections.Counter();sim=0
for l in sys.stdin:
    if l.startswith('@@RES'):
        r=json.loads(l[6:]);n+=1;st+=r['steps'];nt+=r['nontrivial'];h.add(r['trace']);sim+=r['sim_ns']
        for k,c in (r.get('probes') or {}).items(): pr[k]+=c
        for k,c in (r.get('faults') or {}).items(): fl[k]+=c
        if r.get('violations'): v+=1; print(r['seed'],r['violations'][0]['property'],r['violations'][0]['kind'],r['violations'][0]['sig'],r['violations'][0]['detail'][:${D:-400}])
        if r.get('leaked'): print('leak',r['seed'],r['leaked'][:100])
    elif not l.startswith('@@RUN'): print(l.rstrip()[:400])
print('runs',n,'viol',v,'steps',st,'nontrivial',nt,'distinct',len(h),'sim_s',sim/1e9)
print('probes',dict(pr));print('faults',dict(fl))
"
