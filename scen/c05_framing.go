//go:build verif

package scen

import (
	"bytes"
	"context"
	"errors"
	"fmt"
	"sort"
	"time"

	"github.com/gopcua/opcua/uacp"

	"verif/refcodec"
	"verif/sim"
)

// C05: UACP framing delivers exactly the frames sent under any segmentation.

type c05Frame struct {
	Typ   string `json:"typ"`
	Len   int    `json:"len"`  // total frame length actually sent
	Size  uint32 `json:"size"` // declared size
	Bad   bool   `json:"bad,omitempty"`
	IsErr bool   `json:"is_err,omitempty"`
	Code  uint32 `json:"code,omitempty"`
	data  []byte
}

type c05Run struct {
	ServerSide bool   `json:"server_side"` // real code is the accepting side
	Buf        uint32 `json:"buf"`
	// HelBuf: buffer sizes of the Hello (what the dialing side announces / what the raw
	// peer announces to the accepting side); Buf is what the Acknowledge carries. Equal
	// in two thirds of the runs.
	HelBuf  uint32     `json:"hello_buf"`
	SegMode int        `json:"seg_mode"`
	Latency string     `json:"latency"`
	Frames  []c05Frame `json:"frames"`
	EOFAt   int        `json:"eof_at"`               // byte offset in the stream after which the peer closes (-1: after all)
	Cuts    []int      `json:"write_cuts,omitempty"` // the peer issues one Write per piece between these offsets
	Gap     string     `json:"write_gap,omitempty"`  // fake time the peer sleeps between two writes
	gap     time.Duration
	stream  []byte
	lat     time.Duration
}

func (r *c05Run) Sample() any { return r }

func (r *c05Run) Setup(s *sim.Sim) {
	p := s.Plan
	r.ServerSide = p.Bool()
	r.Buf = sim.Pick(p, uint32(8192), 8192, 8193, 16384, 65535, 65536, 1<<20)
	r.HelBuf = r.Buf
	if p.Intn(3) == 0 {
		r.HelBuf = sim.Pick(p, uint32(8192), 8193, 16384, 65535, 65536, 1<<20)
	}
	r.SegMode = p.Intn(4)
	r.lat = sim.Pick(p, 0, time.Millisecond, 20*time.Millisecond)
	r.Latency = r.lat.String()
	if r.SegMode == sim.SegTiny {
		r.Buf = sim.Pick(p, uint32(8192), 8193)
		r.HelBuf = r.Buf
	}
	n := 1 + p.Intn(12)
	if p.Chance(1, 8) && r.Buf <= 65536 {
		n = 1 + p.Intn(40)
	}
	if r.SegMode == sim.SegTiny {
		n = 1 + p.Intn(4)
	}
	badAt := -1
	if p.Chance(1, 2) {
		badAt = p.Intn(n)
	}
	seq := byte(0)
	for i := 0; i < n; i++ {
		var f c05Frame
		if i == badAt {
			f.Bad = true
			switch p.Intn(5) {
			case 0: // size below header
				f.Size = uint32(p.Intn(8))
				f.Typ = "MSGF"
				f.data = refcodec.FrameWithSize("MSGF", nil, f.Size)
			case 1: // size just above the receive buffer
				f.Size = r.Buf + 1 + uint32(p.Intn(3))
				f.Typ = "MSGF"
				f.data = refcodec.FrameWithSize("MSGF", make([]byte, 32), f.Size)
			case 2: // huge
				f.Size = sim.Pick(p, uint32(0xffffffff), 0x80000000, 0x7fffffff)
				f.Typ = "MSGC"
				f.data = refcodec.FrameWithSize("MSGC", make([]byte, 16), f.Size)
			default: // ERR frame
				f.Bad = false
				f.IsErr = true
				f.Code = sim.Pick(p, uint32(0x80820000), 0x80800000, 0x807D0000, 0x80010000)
				f.Typ = "ERRF"
				f.data = refcodec.ErrFrame(f.Code, sim.Pick(p, "", "because", "x"))
				f.Size = uint32(len(f.data))
			}
			f.Len = len(f.data)
			r.Frames = append(r.Frames, f)
			break // nothing after it is meaningful
		}
		var sz int
		switch p.Intn(8) {
		case 0:
			sz = 8
		case 1:
			sz = 9
		case 2:
			sz = int(r.Buf)
		case 3:
			sz = int(r.Buf) - 1
		case 4:
			sz = 8 + p.Intn(64)
		default:
			sz = 8 + p.Intn(int(r.Buf)-7)
		}
		f.Typ = sim.Pick(p, "MSGF", "MSGF", "MSGC", "MSGA", "OPNF", "CLOF")
		body := make([]byte, sz-8)
		for j := range body {
			seq++
			body[j] = seq ^ byte(i)
		}
		f.data = refcodec.Frame(f.Typ, body)
		f.Size, f.Len = uint32(sz), sz
		r.Frames = append(r.Frames, f)
	}
	for _, f := range r.Frames {
		r.stream = append(r.stream, f.data...)
	}
	r.EOFAt = -1
	if p.Chance(1, 3) && len(r.stream) > 0 {
		switch p.Intn(3) {
		case 0:
			r.EOFAt = p.Intn(len(r.stream) + 1)
		case 1: // inside a header
			k := p.Intn(len(r.Frames))
			off := 0
			for _, f := range r.Frames[:k] {
				off += f.Len
			}
			r.EOFAt = off + p.Intn(8)
		default:
			r.EOFAt = len(r.stream) - 1 - p.Intn(min(len(r.stream), 16))
			if r.EOFAt < 0 {
				r.EOFAt = 0
			}
		}
	}
	// the peer's own write boundaries: one write, or several writes cut at
	// arbitrary offsets (inside headers, at frame boundaries) with a pause
	if len(r.stream) > 1 && p.Chance(1, 2) {
		k := 1 + p.Intn(4)
		for i := 0; i < k; i++ {
			if p.Chance(1, 3) { // at a frame boundary +- a few bytes
				off := 0
				for _, f := range r.Frames[:p.Intn(len(r.Frames))+1] {
					off += f.Len
				}
				r.Cuts = append(r.Cuts, off-4+p.Intn(9))
			} else {
				r.Cuts = append(r.Cuts, 1+p.Intn(len(r.stream)-1))
			}
		}
		sort.Ints(r.Cuts)
		r.gap = sim.Pick(p, 0, 0, time.Microsecond, 5*time.Millisecond, 2*time.Second)
		r.Gap = r.gap.String()
	}
	s.Net.DefSegMode = r.SegMode
	s.Net.DefLatency = r.lat
}

type c05Got struct {
	frame []byte
	err   error
	at    time.Duration
	step  int
}

func (r *c05Run) Main(s *sim.Sim) {
	const addr = "peer:4840"
	ep := "opc.tcp://" + addr
	ack := &uacp.Acknowledge{ReceiveBufSize: r.Buf, SendBufSize: r.Buf, MaxChunkCount: 0, MaxMessageSize: 0}
	var conn *uacp.Conn
	var peer interface {
		Write([]byte) (int, error)
		Close() error
	}
	ctx := context.Background()
	if r.ServerSide {
		l, err := uacp.Listen(ctx, ep, ack)
		if err != nil {
			s.Fail("C05", "harness", "listen", "%v", err)
			return
		}
		defer l.Close()
		pc, err := s.Net.Dial(ctx, addr)
		if err != nil {
			s.Fail("C05", "harness", "dial", "%v", err)
			return
		}
		peer = pc
		acc := make(chan error, 1)
		go func() {
			c, err := l.Accept(ctx)
			conn = c
			acc <- err
		}()
		pc.Write(refcodec.Hello{RecvBuf: r.HelBuf, SendBuf: r.HelBuf, Endpoint: ep}.Frame())
		if _, err := refcodec.ReadFrame(pc, 1<<16); err != nil {
			s.Fail("C05", "harness", "ack", "%v", err)
			return
		}
		if err := <-acc; err != nil {
			s.Fail("C05", "harness", "accept", "%v", err)
			return
		}
	} else {
		sl, err := s.Net.Listen(addr)
		if err != nil {
			s.Fail("C05", "harness", "listen", "%v", err)
			return
		}
		defer sl.Close()
		pch := make(chan error, 1)
		go func() {
			pc, err := sl.Accept()
			if err != nil {
				pch <- err
				return
			}
			peer = pc
			if _, err := refcodec.ReadFrame(pc, 1<<16); err != nil {
				pch <- err
				return
			}
			_, err = pc.Write(refcodec.Ack{RecvBuf: r.Buf, SendBuf: r.Buf}.Frame())
			pch <- err
		}()
		d := &uacp.Dialer{ClientACK: &uacp.Acknowledge{ReceiveBufSize: r.HelBuf, SendBufSize: r.HelBuf}}
		c, err := d.Dial(ctx, ep)
		if err != nil {
			s.Fail("C05", "harness", "dial", "%v", err)
			return
		}
		conn = c
		if err := <-pch; err != nil {
			s.Fail("C05", "harness", "peer", "%v", err)
			return
		}
	}
	defer conn.Close()
	if conn.ReceiveBufSize() != r.Buf {
		if r.HelBuf != r.Buf {
			// Hello and Acknowledge differ and the connection settled on something other than the
			// Acknowledge's value: the frame sizes of this plan were drawn for that value (what
			// each side must accept under asymmetric announcements is C06's subject)
			s.Probe("negotiated-other-than-acknowledged")
			return
		}
		s.Fail("C05", "harness", "bufsize", "conn reports receive buffer %d, want %d", conn.ReceiveBufSize(), r.Buf)
		return
	}
	if r.HelBuf != r.Buf {
		s.Probe("hello-and-acknowledge-differ")
	}

	// receiver loop (real code)
	results := make(chan c05Got, len(r.Frames)+2)
	go func() {
		for {
			b, err := conn.Receive()
			results <- c05Got{frame: b, err: err, at: s.Now(), step: s.Steps()}
			if err != nil {
				return
			}
		}
	}()

	// the peer writes the stream in a few writes, then possibly closes
	stream := r.stream
	cut := len(stream)
	if r.EOFAt >= 0 {
		cut = r.EOFAt
	}
	prev := 0
	for _, c := range r.Cuts {
		if c <= prev || c >= cut {
			continue
		}
		peer.Write(stream[prev:c])
		prev = c
		if r.gap > 0 {
			time.Sleep(r.gap)
		}
	}
	peer.Write(stream[prev:cut])
	if r.EOFAt >= 0 {
		peer.Close()
	}

	// expected outcome
	var want []c05Frame
	off := 0
	endsWithErr := false
	for _, f := range r.Frames {
		if f.Bad || f.IsErr {
			// header must be fully delivered for the error to be detected
			need := off + 8
			if f.IsErr {
				need = off + f.Len
			}
			if cut >= need {
				want = append(want, f)
				endsWithErr = true
			}
			break
		}
		if off+f.Len > cut {
			break
		}
		want = append(want, f)
		off += f.Len
	}
	if r.EOFAt >= 0 {
		endsWithErr = true // EOF (clean or mid frame) must end in an error
	}
	if !endsWithErr {
		s.Probe("clean-stream")
	}
	if r.SegMode >= sim.SegRandom {
		s.Nontrivial()
	}
	for i := 0; ; i++ {
		if i == len(want) && !endsWithErr {
			break
		}
		var g c05Got
		select {
		case g = <-results:
		case <-time.After(10 * time.Second):
			s.Fail("C05", "hang", "receive-blocked", "Receive #%d did not return although all input was delivered (want %d frames, err=%v)", i, len(want), endsWithErr)
			return
		}
		if i < len(want) && !want[i].Bad && !want[i].IsErr {
			if g.err != nil {
				s.Fail("C05", "frame-lost", "unexpected-error", "frame %d (%s, %d bytes): got error %v", i, want[i].Typ, want[i].Len, g.err)
				return
			}
			if !bytes.Equal(g.frame, want[i].data) {
				s.Fail("C05", "frame-mismatch", "bytes-differ", "frame %d: got %d bytes %.16x.., want %d bytes %.16x..", i, len(g.frame), g.frame, want[i].Len, want[i].data)
				return
			}
			continue
		}
		// an error is expected here
		if g.err == nil {
			s.Fail("C05", "bad-frame-delivered", "no-error", "result %d: expected an error (bad frame / ERR / EOF) but got a frame of %d bytes %.16x", i, len(g.frame), g.frame)
			return
		}
		if i < len(want) && want[i].IsErr {
			var ue *uacp.Error
			if !errors.As(g.err, &ue) || ue.ErrorCode != want[i].Code {
				s.Fail("C05", "err-frame", "wrong-error", "ERR frame with code %#x surfaced as %T %v", want[i].Code, g.err, g.err)
				return
			}
			s.Probe("err-frame")
		} else if i < len(want) {
			s.Probe("bad-size-rejected")
		} else {
			s.Probe("eof")
		}
		break
	}
	s.Info["frames"] = fmt.Sprint(len(want))
}

func (r *c05Run) Finish(s *sim.Sim) {}

func init() {
	Register(&Scenario{
		Name: "c05", Props: []string{"C05"}, Horizon: 2 * time.Minute, MaxSteps: 400000,
		StuckProperty: "C05",
		New:           func() Run { return &c05Run{} },
	})
}
