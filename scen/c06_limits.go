//go:build verif

package scen

import (
	"bytes"
	"context"
	"fmt"
	"strings"
	"time"

	"github.com/gopcua/opcua"
	"github.com/gopcua/opcua/ua"
	"github.com/gopcua/opcua/uacp"

	"verif/refcodec"
	"verif/sim"
)

// C06: negotiated transport limits are honoured in both directions.

type c06Run struct {
	Role string `json:"gopcua_role"` // client | server
	// what the client announces in its Hello
	HelRecv, HelSend uint32
	// what the server answers in its Acknowledge
	AckRecv, AckSend, AckMaxMsg, AckMaxChunks uint32
	Sizes                                     []int `json:"payload_sizes"`
}

func (r *c06Run) Sample() any { return r }

func (r *c06Run) Setup(s *sim.Sim) {
	p := s.Plan
	s.DrawPolicy()
	r.Role = sim.Pick(p, "client", "server")
	bufs := []uint32{8192, 16384, 32768, 65535}
	r.HelRecv, r.HelSend = bufs[p.Intn(4)], bufs[p.Intn(4)]
	// a conforming server answers with values not larger than what the client can handle
	pickLE := func(limit uint32) uint32 {
		for {
			v := bufs[p.Intn(4)]
			if v <= limit {
				return v
			}
		}
	}
	r.AckRecv, r.AckSend = pickLE(r.HelSend), pickLE(r.HelRecv)
	if r.Role == "server" {
		// the server's own configuration is independent of what a client will announce
		r.AckRecv, r.AckSend = bufs[p.Intn(4)], bufs[p.Intn(4)]
	}
	r.AckMaxMsg = sim.Pick(p, uint32(0), 0, 20000, 100000)
	r.AckMaxChunks = sim.Pick(p, uint32(0), 0, 2, 5)
	n := 2 + p.Intn(4)
	for i := 0; i < n; i++ {
		base := int(sim.Pick(p, r.AckRecv, r.AckSend, r.HelRecv, 3*r.AckRecv, uint32(1000)))
		r.Sizes = append(r.Sizes, base+p.Intn(161)-80)
	}
}

func (r *c06Run) Main(s *sim.Sim) {
	ctx := context.Background()
	asym := r.AckRecv != r.AckSend || r.HelRecv != r.HelSend
	if r.Role == "client" {
		srv, err := newRawServer(s, srvAddr)
		if err != nil {
			s.Fail("HARNESS", "setup", "rawsrv", "%v", err)
			return
		}
		defer srv.Close()
		srv.Ack = refcodec.Ack{RecvBuf: r.AckRecv, SendBuf: r.AckSend, MaxMsg: r.AckMaxMsg, MaxChunks: r.AckMaxChunks}
		// wire oracle: no chunk from the client may exceed what the server said it can receive
		tooBig := 0
		perReq := map[uint32]struct{ chunks, bytes int }{}
		s.Net.OnConn = func(c *sim.Conn) {
			c.C2S.Observers = append(c.C2S.Observers, func(fr []byte) {
				if len(fr) > int(r.AckRecv) && refcodec.FrameType(fr)[:3] == "MSG" && tooBig == 0 {
					tooBig = len(fr)
				}
				if ch, err := refcodec.ParsePlainChunk(fr); err == nil && ch.Type == "MSG" {
					v := perReq[ch.RequestID]
					v.chunks++
					v.bytes += len(ch.Body)
					perReq[ch.RequestID] = v
				}
			})
		}
		srv.OnRequest = sessionHandler(func(c *rawSrvConn, reqID uint32, req ua.Request) {
			// the server sends chunks of exactly the size it announced
			c.MaxBody = int(r.AckSend) - 24
			switch q := req.(type) {
			case *ua.WriteRequest:
				c.Respond(reqID, &ua.WriteResponse{ResponseHeader: rawRespHeader(q.RequestHeader.RequestHandle, ua.StatusOK), Results: make([]ua.StatusCode, len(q.NodesToWrite)), DiagnosticInfos: []*ua.DiagnosticInfo{}})
			case *ua.ReadRequest:
				n := int(q.MaxAge)
				c.Respond(reqID, &ua.ReadResponse{ResponseHeader: rawRespHeader(q.RequestHeader.RequestHandle, ua.StatusOK), Results: []*ua.DataValue{{EncodingMask: ua.DataValueValue, Value: ua.MustVariant(fill(7, n))}}})
			}
		})
		cl, err := newClient(opcua.AutoReconnect(false), opcua.RequestTimeout(5*time.Second), opcua.ReceiveBufferSize(r.HelRecv), opcua.SendBufferSize(r.HelSend))
		if err == nil {
			cctx, cancel := context.WithTimeout(ctx, 10*time.Second)
			err = cl.Connect(cctx)
			cancel()
		}
		if err != nil {
			s.Fail("C06", "connect-failed", "connect", "Connect failed against a conforming server (HEL recv=%d send=%d, ACK recv=%d send=%d): %v", r.HelRecv, r.HelSend, r.AckRecv, r.AckSend, err)
			return
		}
		for i, size := range r.Sizes {
			if size < 0 {
				size = 0
			}
			// (a) a request of that payload size
			before := len(perReq)
			_, werr := cl.Write(ctx, writeReq(ua.NewNumericNodeID(1, 1), fill(3, size)))
			if tooBig > int(r.AckSend) {
				// not the known direction mix-up: larger than either of the server's buffers
				s.Fail("C06", "oversized-chunk", "client-chunk-exceeds-both-server-buffers", "the client sent a chunk of %d bytes; the server announced receive buffer %d and send buffer %d (client's own send buffer: %d)", tooBig, r.AckRecv, r.AckSend, r.HelSend)
				return
			}
			if tooBig > 0 {
				s.Fail("C06", "oversized-chunk", "client-ignores-peer-receive-buffer", "the client sent a chunk of %d bytes although the server announced a receive buffer of %d (its own send buffer: %d, the server's send buffer: %d)", tooBig, r.AckRecv, r.HelSend, r.AckSend)
				return
			}
			// what the request needed
			enc, _ := encodeService(writeReq(ua.NewNumericNodeID(1, 1), fill(3, size)))
			needBytes := len(enc) + 60 // + request header
			needChunks := (needBytes + int(r.AckRecv) - 25) / (int(r.AckRecv) - 24)
			over := (r.AckMaxMsg > 0 && needBytes > int(r.AckMaxMsg)+200) || (r.AckMaxChunks > 0 && needChunks > int(r.AckMaxChunks))
			if over {
				s.Nontrivial()
				if len(perReq) != before {
					s.Fail("C06", "limit-ignored", "message-over-peer-limit-sent", "request %d needs about %d bytes / %d chunks but the server allows MaxMessageSize=%d MaxChunkCount=%d; the client put it on the wire (err=%v)", i, needBytes, needChunks, r.AckMaxMsg, r.AckMaxChunks, werr)
					return
				}
				if werr == nil {
					s.Fail("C06", "limit-ignored", "no-error-for-oversized-message", "request %d exceeds the server's limits but Write returned no error", i)
					return
				}
				s.Probe("oversized-message-refused-by-sender")
			} else if werr != nil && !(r.AckMaxMsg > 0 && needBytes > int(r.AckMaxMsg)-200) {
				s.Fail("C06", "legal-message-failed", "request", "request %d (%d bytes, %d chunks; ACK recv=%d maxmsg=%d maxchunks=%d) failed: %v", i, needBytes, needChunks, r.AckRecv, r.AckMaxMsg, r.AckMaxChunks, werr)
				return
			}
			// (b) a response made of chunks of exactly ACK.SendBuf bytes (which is <= the client's receive buffer)
			res, rerr := cl.Read(ctx, &ua.ReadRequest{MaxAge: float64(size), NodesToRead: []*ua.ReadValueID{{NodeID: ua.NewNumericNodeID(1, 1), AttributeID: ua.AttributeIDValue}}})
			if rerr != nil || len(res.Results) != 1 || res.Results[0].Value == nil || !bytes.Equal(res.Results[0].Value.Value().([]byte), fill(7, size)) {
				sig := "client-rejects-chunk-within-its-receive-buffer"
				if rerr != nil && (r.AckMaxChunks > 0 || r.AckMaxMsg > 0) && (strings.Contains(rerr.Error(), "too many chunks") || strings.Contains(rerr.Error(), "too large")) {
					// second symptom of the wholesale adoption of the Acknowledge: the limits
					// the server announced for messages *it* receives are applied to responses
					sig = "client-applies-server-message-limits-to-responses"
				} else if r.AckSend <= r.AckRecv {
					// the known mix-up (incoming chunks bounded by the server's *receive* buffer) cannot explain this one
					sig = "client-rejects-chunk-within-both-buffers"
				}
				s.Fail("C06", "entitled-chunk-rejected", sig, "a response of %d bytes sent in chunks of %d bytes (the server's announced send buffer; the client announced a receive buffer of %d) failed: %v", size, r.AckSend, r.HelRecv, rerr)
				return
			}
			s.Probe("response-accepted")
		}
		if asym {
			s.Nontrivial()
		}
		s.Teardown()
		cl.Close(ctx)
		return
	}
	// gopcua is the server: its Acknowledge comes from the public default
	const srvMaxMsg = 400000
	*uacp.DefaultServerACK = uacp.Acknowledge{ReceiveBufSize: r.AckRecv, SendBufSize: r.AckSend, MaxChunkCount: 512, MaxMessageSize: srvMaxMsg}
	big := fill(9, 3*int(r.HelRecv))
	e, err := startServer(s, func(e *env) { e.ns.AddNewVariableStringNode("big", big) })
	if err != nil {
		s.Fail("HARNESS", "setup", "server", "%v", err)
		return
	}
	defer e.stop()
	cl, err := dialRawClient(s, srvAddr, refcodec.Hello{RecvBuf: r.HelRecv, SendBuf: r.HelSend, Endpoint: srvURL}, nil)
	if err != nil {
		s.Fail("HARNESS", "setup", "rawclient", "%v", err)
		return
	}
	defer cl.Close()
	if cl.Ack.SendBuf > r.HelRecv {
		s.Fail("C06", "negotiation", "server-ack-exceeds-hello", "the client announced a receive buffer of %d but the server acknowledged a send buffer of %d", r.HelRecv, cl.Ack.SendBuf)
		return
	}
	if err := cl.Open(60000, false); err != nil {
		s.Fail("HARNESS", "setup", "open", "%v", err)
		return
	}
	// session
	cl.MaxBody = int(cl.Ack.RecvBuf) - 24
	svc, err := cl.Request(&ua.CreateSessionRequest{ClientDescription: &ua.ApplicationDescription{ApplicationName: &ua.LocalizedText{}}, EndpointURL: srvURL, SessionName: "x", ClientNonce: make([]byte, 32), RequestedSessionTimeout: 60000}, 5*time.Second)
	cs, ok := svc.(*ua.CreateSessionResponse)
	if err != nil || !ok {
		s.Fail("HARNESS", "setup", "createsession", "%v %T", err, svc)
		return
	}
	act := &ua.ActivateSessionRequest{ClientSignature: &ua.SignatureData{}, UserIdentityToken: ua.NewExtensionObject(&ua.AnonymousIdentityToken{PolicyID: "anonymous_none"}), UserTokenSignature: &ua.SignatureData{}}
	act.SetHeader(&ua.RequestHeader{})
	sendWithToken := func(req ua.Request) (any, error) {
		id := cl.nextReq
		cl.nextReq++
		req.SetHeader(&ua.RequestHeader{AuthenticationToken: cs.AuthenticationToken, Timestamp: time.Now(), RequestHandle: id, AdditionalHeader: ua.NewExtensionObject(nil)})
		body, err := encodeService(req)
		if err != nil {
			return nil, err
		}
		if err := cl.SendBody("MSG", id, body); err != nil {
			return nil, err
		}
		_, svc, err := cl.Recv(5 * time.Second)
		return svc, err
	}
	if _, err := sendWithToken(act); err != nil {
		s.Fail("HARNESS", "setup", "activate", "%v", err)
		return
	}
	// (a) the server's chunks must fit the receive buffer the client announced
	maxSeen := 0
	s.Net.Conns()[len(s.Net.Conns())-1].S2C.Observers = append(s.Net.Conns()[len(s.Net.Conns())-1].S2C.Observers, func(fr []byte) {
		if len(fr) > maxSeen {
			maxSeen = len(fr)
		}
	})
	svc, err = sendWithToken(readReq(e.nodeID("big")))
	if maxSeen > int(r.HelRecv) && maxSeen > int(r.AckSend) {
		s.Fail("C06", "oversized-chunk", "server-chunk-exceeds-its-own-send-buffer", "the server sent a chunk of %d bytes; its configured send buffer is %d and the client announced a receive buffer of %d", maxSeen, r.AckSend, r.HelRecv)
		return
	}
	if maxSeen > int(r.HelRecv) {
		s.Fail("C06", "oversized-chunk", "server-ignores-peer-receive-buffer", "the server sent a chunk of %d bytes although the client announced a receive buffer of %d in its Hello (server ACK: send buffer %d)", maxSeen, r.HelRecv, cl.Ack.SendBuf)
		return
	}
	if err != nil {
		s.Fail("C06", "legal-message-failed", "response", "reading a %d byte value failed: %v", len(big), err)
		return
	}
	// another client connects with the smallest buffers the protocol allows and goes away
	// again: what it negotiates is its own business and must not change what this
	// connection was acknowledged
	if by, err := dialRawClient(s, srvAddr, refcodec.Hello{RecvBuf: 8192, SendBuf: 8192, MaxMsg: 16384, MaxChunks: 2, Endpoint: srvURL}, nil); err == nil {
		by.Open(60000, false)
		s.Probe("bystander-with-small-hello")
		defer by.Close()
	}
	// (b) a request in chunks of exactly the size the server said it can receive
	wr := writeReq(e.nodeID("big"), fill(4, 2*int(cl.Ack.RecvBuf)))
	svc, err = sendWithToken(wr)
	if w, ok := svc.(*ua.WriteResponse); err != nil || !ok || len(w.Results) != 1 || w.Results[0] != ua.StatusOK {
		s.Fail("C06", "entitled-chunk-rejected", "server-rejects-chunk-within-its-receive-buffer", "a request sent in chunks of %d bytes (the server's announced receive buffer) failed: %v %T", cl.Ack.RecvBuf, err, svc)
		return
	}
	// (c) the limit the server announced for itself: a request of MaxMessageSize + a little
	// (less than one chunk above the limit, up to a few chunks above) must not be served
	if cl.Ack.MaxMsg != srvMaxMsg {
		s.Fail("C06", "negotiation", "server-announces-other-max-message-size", "the server was configured with MaxMessageSize %d and acknowledged %d", srvMaxMsg, cl.Ack.MaxMsg)
		return
	}
	for _, over := range r.Sizes {
		if over < 0 {
			over = -over
		}
		over = 1 + over%(3*int(cl.Ack.RecvBuf))
		// exact size of the message body the server will measure (type id + request with
		// the header sendWithToken adds); a byte string grows the body byte for byte
		probe := writeReq(e.nodeID("big"), []byte{})
		probe.SetHeader(&ua.RequestHeader{AuthenticationToken: cs.AuthenticationToken, Timestamp: time.Now(), RequestHandle: cl.nextReq, AdditionalHeader: ua.NewExtensionObject(nil)})
		base, _ := encodeService(probe)
		payload := srvMaxMsg + over - len(base)
		before := e.ns.Node(e.nodeID("big")).Value()
		svc, err = sendWithToken(writeReq(e.nodeID("big"), fill(5, payload)))
		after := e.ns.Node(e.nodeID("big")).Value()
		served := false
		if w, ok := svc.(*ua.WriteResponse); err == nil && ok && len(w.Results) == 1 && w.Results[0] == ua.StatusOK {
			served = true
		}
		if served || before != after {
			s.Fail("C06", "limit-ignored", "server-serves-message-over-its-own-limit", "the server announced MaxMessageSize %d and served a request of %d bytes (%d over; response %T err=%v, value changed: %v)", srvMaxMsg, srvMaxMsg+over, over, svc, err, before != after)
			return
		}
		s.Probe("oversized-request-refused-by-server")
		break // the channel is gone after a refused message
	}
	s.Probe("server-role-ok")
	if asym {
		s.Nontrivial()
	}
	_ = fmt.Sprint
	s.Teardown()
}

func (r *c06Run) Finish(s *sim.Sim) {}

func init() {
	Register(&Scenario{Name: "c06", Props: []string{"C06"}, Horizon: 10 * time.Minute, MaxSteps: 800000, New: func() Run { return &c06Run{} }, StuckProperty: "C06"})
}
