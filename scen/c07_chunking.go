//go:build verif

package scen

import (
	"bytes"
	"context"
	"crypto/sha1"
	"fmt"
	"sync"
	"time"

	"github.com/gopcua/opcua/ua"
	"github.com/gopcua/opcua/uacp"
	"github.com/gopcua/opcua/uasc"

	"verif/refcodec"
	"verif/sim"
)

// C07: secure channel chunking round-trips every message under every policy and mode.
// C08 (passive half): every chunk gopcua emits opens under independently derived keys.
//
// Real uasc client channel <-> real uasc server channel over the simulated
// network; the wire oracle (reference codec) sits on the connection.

type c07Msg struct {
	Response bool `json:"response"` // large body travels server -> client
	K        int  `json:"k"`        // body length = K * maxBody + D
	D        int  `json:"d"`
	// Status != 0: the server answers with that service result (bad, uncertain or good
	// with a sub code) and the full body; the channel reports the status as the error of
	// the call and still hands the response to the handler
	Status uint32 `json:"service_result,omitempty"`
	size   int
}

type c07Run struct {
	ForC20  bool     `json:"c20_variant"` // mostly unsecured channels and single chunk messages: where decoded values alias transport buffers
	Cfg     secCfg   `json:"cfg"`
	Chunk   uint32   `json:"chunk_size"`
	Msgs    []c07Msg `json:"msgs"`
	SegMode int      `json:"seg_mode"`
	MaxBody int      `json:"reference_max_body"`
}

func (r *c07Run) Sample() any { return r }

// refMaxBody is the largest body (service type id + message) a chunk of the
// given size can carry according to the Part 6 layout.
func refMaxBody(cfg secCfg, chunk int) int {
	if cfg.Policy == "None" {
		return chunk - 24
	}
	p := refcodec.Policies[cfg.Policy]
	if cfg.Mode == 2 {
		return chunk - 16 - 8 - p.SymSigLen
	}
	enc := (chunk - 16) / p.SymBlock * p.SymBlock
	return enc - 8 - p.SymSigLen - 1
}

func (r *c07Run) Setup(s *sim.Sim) {
	p := s.Plan
	s.DrawPolicy()
	loadKeys()
	r.Cfg = drawSecCfg(p, p.Intn(6) != 0)
	if r.ForC20 && p.Intn(4) != 0 {
		r.Cfg = allSecCfgs()[0]
	}
	r.Chunk = sim.Pick(p, uint32(8192), 8192, 8193, 8200, 16384, 65535, 65536, 100000, 1<<20)
	r.SegMode = p.Intn(3)
	r.MaxBody = refMaxBody(r.Cfg, int(r.Chunk))
	n := 1 + p.Intn(5)
	if r.ForC20 {
		n += 2
	}
	for i := 0; i < n; i++ {
		m := c07Msg{Response: p.Bool(), K: p.Intn(4), D: p.Intn(81) - 40}
		if p.Chance(1, 4) {
			m.D = sim.Pick(p, 0, -1, 1, -17, 15, 16)
		}
		if r.Chunk > 100000 && m.K > 1 {
			m.K = 1
		}
		if p.Chance(1, 3) || (r.ForC20 && p.Intn(4) != 0) {
			// a single chunk message with a substantial payload
			m.K, m.D = 0, 200+p.Intn(r.MaxBody-400)
		}
		if p.Chance(1, 6) {
			m.Status = sim.Pick(p, uint32(ua.StatusBadInternalError), uint32(ua.StatusBadNodeIDUnknown), 0x40000000, 0x00A90000)
		}
		r.Msgs = append(r.Msgs, m)
	}
}

func thumbprint(der []byte) []byte { h := sha1.Sum(der); return h[:] }

// payloadFor returns a payload such that the encoded service has exactly
// size bytes (or the smallest possible if size is too small).
func c07Request(marker uint32, size int) (*ua.WriteRequest, []byte) {
	mk := func(p []byte) *ua.WriteRequest {
		return &ua.WriteRequest{NodesToWrite: []*ua.WriteValue{{NodeID: ua.NewNumericNodeID(1, marker), AttributeID: ua.AttributeIDValue, Value: &ua.DataValue{EncodingMask: ua.DataValueValue, Value: ua.MustVariant(p)}}}}
	}
	return mk(fill(marker, size)), fill(marker, size)
}

func fill(marker uint32, n int) []byte {
	if n < 0 {
		n = 0
	}
	b := make([]byte, n)
	for i := range b {
		b[i] = byte(uint32(i)*7 + marker)
	}
	return b
}

func (r *c07Run) Main(s *sim.Sim) {
	s.Net.DefSegMode = r.SegMode
	ctx := context.Background()
	ora := newSecOracle(s, r.Cfg, "C08")
	ora.MaxC2S, ora.MaxS2C = int(r.Chunk), int(r.Chunk)
	ora.SizeProp = "C07" // secOracle also reports C06 for an oversized chunk
	// contiguity / flags: the oracle reassembles and records what each request id carried
	type wireMsg struct {
		dir  string
		body []byte
	}
	reasm := map[string]*refcodec.Reassembler{"c2s": refcodec.NewReassembler(), "s2c": refcodec.NewReassembler()}
	var onWire []wireMsg
	multi := 0
	ora.OnPlain = func(dir string, ch *refcodec.Chunk) {
		if ch.Type != "MSG" {
			return
		}
		if ch.ChunkType == 'C' {
			multi++
		}
		if body, done, aborted := reasm[dir].Add(ch); done && !aborted {
			onWire = append(onWire, wireMsg{dir, body})
		}
	}
	s.Net.OnConn = func(c *sim.Conn) { ora.attach(c) }

	ack := &uacp.Acknowledge{ReceiveBufSize: r.Chunk, SendBufSize: r.Chunk, MaxChunkCount: 4096, MaxMessageSize: 64 << 20}
	l, err := uacp.Listen(ctx, srvURL, ack)
	if err != nil {
		s.Fail("HARNESS", "setup", "listen", "%v", err)
		return
	}
	defer l.Close()
	type srvGot struct {
		marker  uint32
		payload []byte
		err     error
	}
	srvResults := make(chan srvGot, 64)
	// C20: every delivered message is kept together with a snapshot of its
	// encoding taken at delivery; both are compared after all later traffic
	type kept struct {
		what string
		msg  any
		snap []byte
	}
	var keptMu sync.Mutex
	var keep []kept
	retain := func(what string, msg any) {
		b, err := encodeService(msg)
		if err != nil {
			return
		}
		keptMu.Lock()
		keep = append(keep, kept{what, msg, b})
		keptMu.Unlock()
	}
	respSize := map[uint32]int{}
	for i, m := range r.Msgs {
		if m.Response {
			respSize[uint32(i+1)] = 1 // filled below
		}
	}
	srvCfg := &uasc.Config{SecurityPolicyURI: ua.SecurityPolicyURINone, SecurityMode: ua.MessageSecurityModeNone, Lifetime: 3600000}
	if r.Cfg.Policy != "None" {
		srvCfg.Certificate = key("server", r.Cfg.ServerBits).Cert
		srvCfg.LocalKey = key("server", r.Cfg.ServerBits).Key
	}
	// sizes: request i carries (if !Response) a body of K*maxBody+D bytes in total
	base := func(build func(p []byte) any) int {
		b, _ := encodeService(build(nil))
		return len(b)
	}
	reqBase := base(func(p []byte) any {
		q, _ := c07Request(1, 0)
		q.RequestHeader = &ua.RequestHeader{AuthenticationToken: ua.NewTwoByteNodeID(0), Timestamp: time.Now(), AdditionalHeader: ua.NewExtensionObject(nil)}
		return q
	})
	respBase := base(func(p []byte) any {
		return &ua.ReadResponse{ResponseHeader: rawRespHeader(1, ua.StatusOK), Results: []*ua.DataValue{{EncodingMask: ua.DataValueValue, Value: ua.MustVariant([]byte{})}}}
	})
	for i := range r.Msgs {
		m := &r.Msgs[i]
		m.size = m.K*r.MaxBody + m.D
	}
	serveConn := func(conn *uacp.Conn, chanID uint32) {
		errch := make(chan error, 16)
		cfgCopy := *srvCfg
		sc, err := uasc.NewServerSecureChannel("", conn, &cfgCopy, errch, chanID, 100, 7)
		if err != nil {
			return
		}
		for {
			msg := sc.Receive(ctx)
			if msg.Err != nil {
				srvResults <- srvGot{err: msg.Err}
				return
			}
			wr, ok := msg.Request().(*ua.WriteRequest)
			if !ok {
				continue
			}
			retain(fmt.Sprintf("request delivered by the server channel %d", chanID), wr)
			g := srvGot{marker: wr.NodesToWrite[0].NodeID.IntID()}
			g.payload, _ = wr.NodesToWrite[0].Value.Value.Value().([]byte)
			srvResults <- g
			// answer: a response whose body is large if the plan says so
			mi := int(g.marker) - 1
			n := 0
			if mi >= 0 && mi < len(r.Msgs) && r.Msgs[mi].Response {
				n = r.Msgs[mi].size - respBase
			}
			st := ua.StatusOK
			if mi >= 0 && mi < len(r.Msgs) && r.Msgs[mi].Status != 0 {
				st = ua.StatusCode(r.Msgs[mi].Status)
			}
			resp := &ua.ReadResponse{ResponseHeader: rawRespHeader(wr.RequestHeader.RequestHandle, st), Results: []*ua.DataValue{{EncodingMask: ua.DataValueValue, Value: ua.MustVariant(fill(g.marker+100, n))}}}
			if err := sc.SendResponseWithContext(ctx, msg.RequestID, resp); err != nil {
				srvResults <- srvGot{err: fmt.Errorf("send response: %w", err)}
				return
			}
		}
	}
	go func() {
		for id := uint32(4242); ; id++ {
			conn, err := l.Accept(ctx)
			if err != nil {
				return
			}
			go serveConn(conn, id)
		}
	}()
	d := &uacp.Dialer{ClientACK: &uacp.Acknowledge{ReceiveBufSize: r.Chunk, SendBufSize: r.Chunk}}
	conn, err := d.Dial(ctx, srvURL)
	if err != nil {
		s.Fail("HARNESS", "setup", "dial", "%v", err)
		return
	}
	errch := make(chan error, 64)
	cfg := &uasc.Config{SecurityPolicyURI: r.Cfg.uri(), SecurityMode: r.Cfg.mode(), Lifetime: 3600000, RequestTimeout: 20 * time.Second}
	if r.Cfg.Policy != "None" {
		ck, sk := key("client", r.Cfg.ClientBits), key("server", r.Cfg.ServerBits)
		cfg.Certificate, cfg.LocalKey, cfg.RemoteCertificate, cfg.Thumbprint = ck.Cert, ck.Key, sk.Cert, thumbprint(sk.Cert)
	}
	sc, err := uasc.NewSecureChannel(srvURL, conn, cfg, errch)
	if err == nil {
		octx, cancel := context.WithTimeout(ctx, 20*time.Second)
		err = sc.Open(octx)
		cancel()
	}
	if err != nil {
		if !s.Failed() {
			s.Fail("C07", "open-failed", "open-"+r.Cfg.Policy, "opening a %s/%d channel (keys %d/%d, chunk %d) between two gopcua channels failed: %v", r.Cfg.Policy, r.Cfg.Mode, r.Cfg.ClientBits, r.Cfg.ServerBits, r.Chunk, err)
		}
		return
	}
	exact := false
	for i, m := range r.Msgs {
		marker := uint32(i + 1)
		n := 0
		if !m.Response {
			n = m.size - reqBase
		}
		if n > 0 && m.D == 0 || (m.Response && m.D == 0 && m.size > respBase) {
			exact = true
		}
		req, payload := c07Request(marker, n)
		var got []byte
		gotOK := false
		err := sc.SendRequestWithTimeout(ctx, req, nil, 20*time.Second, func(v ua.Response) error {
			if rr, ok := v.(*ua.ReadResponse); ok && len(rr.Results) == 1 && rr.Results[0].Value != nil {
				got, gotOK = rr.Results[0].Value.Value().([]byte)
				retain("response delivered by the client channel", rr)
			}
			return nil
		})
		if s.Failed() {
			return
		}
		if m.Status != 0 && err == ua.StatusCode(m.Status) {
			s.Probe("response-with-service-result-delivered")
			err = nil // the status the server chose; the body was handed to the handler all the same
		}
		if err != nil {
			s.Fail("C07", "round-trip-failed", sigErr(err), "message %d (%+v, %d byte body, chunk %d, max body %d, %s/%d keys %d/%d) failed: %v", i, m, m.size, r.Chunk, r.MaxBody, r.Cfg.Policy, r.Cfg.Mode, r.Cfg.ClientBits, r.Cfg.ServerBits, err)
			return
		}
		select {
		case g := <-srvResults:
			if g.err != nil || g.marker != marker || !bytes.Equal(g.payload, payload) {
				s.Fail("C07", "wrong-message", "request-differs", "request %d: the server channel delivered marker=%d payload=%d bytes err=%v, sent %d bytes", i, g.marker, len(g.payload), g.err, len(payload))
				return
			}
		case <-time.After(5 * time.Second):
			s.Fail("C07", "message-lost", "request-not-delivered", "request %d was answered but never delivered by Receive", i)
			return
		}
		wantResp := 0
		if m.Response {
			wantResp = m.size - respBase
		}
		if !gotOK || !bytes.Equal(got, fill(marker+100, wantResp)) {
			s.Fail("C07", "wrong-message", "response-differs", "response %d: delivered %d bytes (ok=%v), the server sent %d", i, len(got), gotOK, max(wantResp, 0))
			return
		}
		s.Probe("round-trip-ok")
	}
	// more traffic on another connection, then the comparison (C20)
	if conn2, err := d.Dial(ctx, srvURL); err == nil {
		if sc2, err := uasc.NewSecureChannel(srvURL, conn2, cfg, make(chan error, 16)); err == nil {
			octx, cancel := context.WithTimeout(ctx, 20*time.Second)
			if sc2.Open(octx) == nil {
				for k := 0; k < 3; k++ {
					req, _ := c07Request(uint32(900+k), 3000+k*5000)
					sc2.SendRequestWithTimeout(ctx, req, nil, 10*time.Second, func(v ua.Response) error { return nil })
					select {
					case <-srvResults:
					case <-time.After(2 * time.Second):
					}
				}
				s.Probe("second-connection-traffic")
			}
			cancel()
			sc2.Close()
		}
		conn2.Close()
	}
	keptMu.Lock()
	for _, k := range keep {
		now, err := encodeService(k.msg)
		if err != nil || !bytes.Equal(now, k.snap) {
			keptMu.Unlock()
			s.Fail("C20", "delivered-message-changed", "aliases-transport-buffer", "a %s (%d bytes encoded) no longer encodes to what it encoded to when it was delivered (err=%v); %d messages were delivered afterwards; %s/%d chunk %d", k.what, len(k.snap), err, len(keep), r.Cfg.Policy, r.Cfg.Mode, r.Chunk)
			return
		}
	}
	nkept := len(keep)
	keptMu.Unlock()
	if nkept >= 2 {
		s.Probe("retained-messages-unchanged")
	}
	if exact {
		s.Probe("body-exact-multiple-of-max-body")
	}
	if multi > 0 {
		s.Nontrivial()
		s.Probe("multi-chunk")
	}
	s.Info["chunks_on_wire"] = ora.Chunks
	_ = onWire
	s.Teardown()
	sc.Close()
	conn.Close()
}

func (r *c07Run) Finish(s *sim.Sim) {}

func init() {
	Register(&Scenario{Name: "c20", Props: []string{"C20", "C07"}, Horizon: 10 * time.Minute, MaxSteps: 800000, New: func() Run { return &c07Run{ForC20: true} }, StuckProperty: "C07"})
	Register(&Scenario{Name: "c07", Props: []string{"C07", "C08"}, Horizon: 10 * time.Minute, MaxSteps: 800000, New: func() Run { return &c07Run{} }, StuckProperty: "C07"})
}
