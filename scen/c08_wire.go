//go:build verif

package scen

import (
	"bytes"
	"context"
	"time"

	"github.com/gopcua/opcua/ua"
	"github.com/gopcua/opcua/uacp"
	"github.com/gopcua/opcua/uasc"

	"verif/refcodec"
	"verif/sim"
)

// C08 (active half): gopcua accepts every chunk an independent implementation
// of the Part 6 layout produces, and that implementation opens every chunk
// gopcua sends - with gopcua in the client role and in the server role.

type c08Run struct {
	Cfg        secCfg `json:"cfg"`
	Chunk      uint32 `json:"chunk_size"`
	GopcuaRole string `json:"gopcua_role"` // client | server
	Sizes      []int  `json:"body_sizes"`  // K*maxBody+D per message
	SegMode    int    `json:"seg_mode"`
	MaxBody    int    `json:"reference_max_body"`
}

func (r *c08Run) Sample() any { return r }

func (r *c08Run) Setup(s *sim.Sim) {
	p := s.Plan
	s.DrawPolicy()
	loadKeys()
	r.Cfg = drawSecCfg(p, p.Intn(8) != 0)
	r.Chunk = sim.Pick(p, uint32(8192), 8192, 8193, 8200, 16384, 65535, 65536)
	r.SegMode = p.Intn(3)
	r.GopcuaRole = sim.Pick(p, "client", "server")
	r.MaxBody = refMaxBody(r.Cfg, int(r.Chunk))
	n := 1 + p.Intn(4)
	for i := 0; i < n; i++ {
		k, d := p.Intn(4), p.Intn(81)-40
		if p.Chance(1, 3) {
			d = sim.Pick(p, 0, -1, 1, 15, 16, -16)
		}
		r.Sizes = append(r.Sizes, k*r.MaxBody+d)
	}
}

func (r *c08Run) Main(s *sim.Sim) {
	s.Net.DefSegMode = r.SegMode
	ctx := context.Background()
	sec := r.Cfg
	respBase := func() int {
		b, _ := encodeService(&ua.ReadResponse{ResponseHeader: rawRespHeader(1, ua.StatusOK), Results: []*ua.DataValue{{EncodingMask: ua.DataValueValue, Value: ua.MustVariant([]byte{})}}})
		return len(b)
	}()
	reqBase := func() int {
		q, _ := c07Request(1, 0)
		q.RequestHeader = &ua.RequestHeader{AuthenticationToken: ua.NewTwoByteNodeID(0), Timestamp: time.Now(), AdditionalHeader: ua.NewExtensionObject(nil)}
		b, _ := encodeService(q)
		return len(b)
	}()
	desc := func() string {
		return r.Cfg.Policy + "/" + map[int]string{1: "None", 2: "Sign", 3: "SignAndEncrypt"}[r.Cfg.Mode]
	}
	if r.GopcuaRole == "client" {
		// reference server, gopcua client channel
		srv, err := newRawServer(s, srvAddr)
		if err != nil {
			s.Fail("HARNESS", "setup", "rawsrv", "%v", err)
			return
		}
		defer srv.Close()
		srv.Sec = &sec
		srv.Ack = refcodec.Ack{RecvBuf: r.Chunk, SendBuf: r.Chunk, MaxMsg: 64 << 20, MaxChunks: 4096}
		var protoErr error
		srv.OnProtocolError = func(c *rawSrvConn, err error) { protoErr = err }
		srv.OnRequest = func(c *rawSrvConn, reqID uint32, req ua.Request) {
			c.MaxBody = r.MaxBody
			wr, ok := req.(*ua.WriteRequest)
			if !ok {
				return
			}
			marker := wr.NodesToWrite[0].NodeID.IntID()
			payload, _ := wr.NodesToWrite[0].Value.Value.Value().([]byte)
			if !bytes.Equal(payload, fill(marker, len(payload))) {
				s.Fail("C08", "wrong-message", "request-garbled", "the reference server decoded a request whose payload differs from what the gopcua client sent")
				return
			}
			// echo a response of the same planned size
			n := len(payload) + reqBase - respBase
			c.Respond(reqID, &ua.ReadResponse{ResponseHeader: rawRespHeader(wr.RequestHeader.RequestHandle, ua.StatusOK), Results: []*ua.DataValue{{EncodingMask: ua.DataValueValue, Value: ua.MustVariant(fill(marker+100, n))}}})
		}
		d := &uacp.Dialer{ClientACK: &uacp.Acknowledge{ReceiveBufSize: r.Chunk, SendBufSize: r.Chunk}}
		conn, err := d.Dial(ctx, srvURL)
		if err != nil {
			s.Fail("HARNESS", "setup", "dial", "%v", err)
			return
		}
		errch := make(chan error, 64)
		cfg := &uasc.Config{SecurityPolicyURI: r.Cfg.uri(), SecurityMode: r.Cfg.mode(), Lifetime: 3600000, RequestTimeout: 20 * time.Second}
		if r.Cfg.Policy != "None" {
			ck, sk := key("client", r.Cfg.ClientBits), key("server", r.Cfg.ServerBits)
			cfg.Certificate, cfg.LocalKey, cfg.RemoteCertificate, cfg.Thumbprint = ck.Cert, ck.Key, sk.Cert, thumbprint(sk.Cert)
		}
		sc, err := uasc.NewSecureChannel(srvURL, conn, cfg, errch)
		if err == nil {
			octx, cancel := context.WithTimeout(ctx, 20*time.Second)
			err = sc.Open(octx)
			cancel()
		}
		if err != nil {
			if protoErr != nil {
				s.Fail("C08", "chunk-does-not-open", "c2s-OPN", "the reference server cannot open the gopcua client's OPN (%s, keys %d/%d): %v", desc(), r.Cfg.ClientBits, r.Cfg.ServerBits, protoErr)
			} else {
				s.Fail("C08", "reference-chunk-rejected", "s2c-OPN", "the gopcua client rejected the reference server's OpenSecureChannel response (%s, keys %d/%d): %v", desc(), r.Cfg.ClientBits, r.Cfg.ServerBits, err)
			}
			return
		}
		for i, size := range r.Sizes {
			marker := uint32(i + 1)
			n := size - reqBase
			req, _ := c07Request(marker, n)
			var got []byte
			ok := false
			err := sc.SendRequestWithTimeout(ctx, req, nil, 20*time.Second, func(v ua.Response) error {
				if rr, isr := v.(*ua.ReadResponse); isr && len(rr.Results) == 1 && rr.Results[0].Value != nil {
					got, ok = rr.Results[0].Value.Value().([]byte)
				}
				return nil
			})
			if s.Failed() {
				return
			}
			if err != nil {
				if protoErr != nil {
					s.Fail("C08", "chunk-does-not-open", "c2s-MSG", "message %d (%d byte body, chunk %d, %s): the reference server cannot open a chunk of the gopcua client: %v", i, size, r.Chunk, desc(), protoErr)
				} else {
					s.Fail("C08", "reference-chunk-rejected", "s2c-MSG:"+sigErr(err), "message %d (%d byte body, reference max body %d, chunk %d, %s): the gopcua client did not accept the reference server's response: %v", i, size, r.MaxBody, r.Chunk, desc(), err)
				}
				return
			}
			want := fill(marker+100, max(n, 0)+reqBase-respBase)
			if !ok || !bytes.Equal(got, want) {
				s.Fail("C08", "wrong-message", "response-garbled", "message %d: the gopcua client delivered %d bytes, the reference server sealed %d", i, len(got), len(want))
				return
			}
			s.Probe("client-role-round-trip")
		}
		s.Teardown()
		sc.Close()
		conn.Close()
	} else {
		// gopcua server channel, reference client
		ack := &uacp.Acknowledge{ReceiveBufSize: r.Chunk, SendBufSize: r.Chunk, MaxChunkCount: 4096, MaxMessageSize: 64 << 20}
		l, err := uacp.Listen(ctx, srvURL, ack)
		if err != nil {
			s.Fail("HARNESS", "setup", "listen", "%v", err)
			return
		}
		defer l.Close()
		srvErr := make(chan error, 4)
		go func() {
			conn, err := l.Accept(ctx)
			if err != nil {
				return
			}
			errch := make(chan error, 16)
			srvCfg := &uasc.Config{SecurityPolicyURI: ua.SecurityPolicyURINone, SecurityMode: ua.MessageSecurityModeNone, Lifetime: 3600000}
			if r.Cfg.Policy != "None" {
				srvCfg.Certificate, srvCfg.LocalKey = key("server", r.Cfg.ServerBits).Cert, key("server", r.Cfg.ServerBits).Key
			}
			sc, err := uasc.NewServerSecureChannel("", conn, srvCfg, errch, 4242, 100, 7)
			if err != nil {
				return
			}
			for {
				msg := sc.Receive(ctx)
				if msg.Err != nil {
					srvErr <- msg.Err
					return
				}
				wr, ok := msg.Request().(*ua.WriteRequest)
				if !ok {
					continue
				}
				marker := wr.NodesToWrite[0].NodeID.IntID()
				payload, _ := wr.NodesToWrite[0].Value.Value.Value().([]byte)
				if !bytes.Equal(payload, fill(marker, len(payload))) {
					s.Fail("C08", "wrong-message", "request-garbled", "the gopcua server channel delivered a request whose payload differs from what the reference client sealed")
					return
				}
				n := len(payload) + reqBase - respBase
				resp := &ua.ReadResponse{ResponseHeader: rawRespHeader(wr.RequestHeader.RequestHandle, ua.StatusOK), Results: []*ua.DataValue{{EncodingMask: ua.DataValueValue, Value: ua.MustVariant(fill(marker+100, n))}}}
				if err := sc.SendResponseWithContext(ctx, msg.RequestID, resp); err != nil {
					srvErr <- err
					return
				}
			}
		}()
		cl, err := dialRawClient(s, srvAddr, refcodec.Hello{RecvBuf: r.Chunk, SendBuf: r.Chunk, Endpoint: srvURL}, &sec)
		if err != nil {
			s.Fail("HARNESS", "setup", "rawclient", "%v", err)
			return
		}
		defer cl.Close()
		cl.MaxBody = r.MaxBody
		if err := cl.Open(3600000, false); err != nil {
			select {
			case e := <-srvErr:
				s.Fail("C08", "reference-chunk-rejected", "c2s-OPN", "the gopcua server channel rejected the reference client's OpenSecureChannel request (%s, keys %d/%d): %v", desc(), r.Cfg.ClientBits, r.Cfg.ServerBits, e)
			default:
				s.Fail("C08", "chunk-does-not-open", "s2c-OPN", "the reference client cannot use the gopcua server channel's OpenSecureChannel response (%s, keys %d/%d): %v", desc(), r.Cfg.ClientBits, r.Cfg.ServerBits, err)
			}
			return
		}
		for i, size := range r.Sizes {
			marker := uint32(i + 1)
			n := size - reqBase
			req, _ := c07Request(marker, n)
			svc, err := cl.Request(req, 20*time.Second)
			if s.Failed() {
				return
			}
			if err != nil {
				select {
				case e := <-srvErr:
					s.Fail("C08", "reference-chunk-rejected", "c2s-MSG:"+sigErr(e), "message %d (%d byte body, reference max body %d, chunk %d, %s): the gopcua server channel did not accept the reference client's chunks: %v", i, size, r.MaxBody, r.Chunk, desc(), e)
				default:
					s.Fail("C08", "chunk-does-not-open", "s2c-MSG", "message %d (%d byte body, chunk %d, %s): %v", i, size, r.Chunk, desc(), err)
				}
				return
			}
			rr, ok := svc.(*ua.ReadResponse)
			want := fill(marker+100, max(n, 0)+reqBase-respBase)
			var got []byte
			if ok && len(rr.Results) == 1 && rr.Results[0].Value != nil {
				got, _ = rr.Results[0].Value.Value().([]byte)
			}
			if !ok || !bytes.Equal(got, want) {
				s.Fail("C08", "wrong-message", "response-garbled", "message %d: the reference client decoded %d bytes (%T), the gopcua server sent %d", i, len(got), svc, len(want))
				return
			}
			s.Probe("server-role-round-trip")
		}
		s.Teardown()
	}
	s.Nontrivial()
}

func (r *c08Run) Finish(s *sim.Sim) {}

func init() {
	Register(&Scenario{Name: "c08", Props: []string{"C08"}, Horizon: 10 * time.Minute, MaxSteps: 800000, New: func() Run { return &c08Run{} }, StuckProperty: "C08"})
}
