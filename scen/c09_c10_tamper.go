//go:build verif

package scen

import (
	"bytes"
	"context"
	"encoding/binary"
	"fmt"
	"os"
	"sync"
	"time"

	"github.com/gopcua/opcua/ua"
	"github.com/gopcua/opcua/uacp"
	"github.com/gopcua/opcua/uasc"

	"verif/refcodec"
	"verif/sim"
)

// C09: tampered, truncated or forged secured chunks are rejected.
// C10: a replayed secured chunk is never delivered twice.
//
// Two real uasc channels (client and server kind) in Sign or SignAndEncrypt
// mode; an on-path adversary (tap) edits, truncates, extends, reseals under
// other keys, or replays chunks. The adversary knows every key pair (the
// harness generated them), so "wrong key" forgeries are real forgeries.

type tamperPlan struct {
	Dir    string `json:"dir"`    // c2s | s2c
	Victim int    `json:"victim"` // index of the MSG chunk in that direction (OPN: -1)
	Kind   string `json:"kind"`
	A      int    `json:"a"`
	B      int    `json:"b"`
	Later  int    `json:"later"` // replay: re-insert after that many further chunks
}

type tamperRun struct {
	Mode    string     `json:"mode_of_run"` // c09 | c10
	Cfg     secCfg     `json:"cfg"`
	Chunk   uint32     `json:"chunk_size"`
	Sizes   []int      `json:"body_sizes"`
	Plan    tamperPlan `json:"plan"`
	Renew   bool       `json:"renew_between"`
	SegMode int        `json:"seg_mode"`
}

func (r *tamperRun) Sample() any { return r }

var c09Kinds = []string{"flip", "flip", "flip-many", "truncate", "truncate-fixsize", "extend", "extend-fixsize", "reseal-wrong-keys", "reseal-direction-keys", "zero-signature", "strip-signature", "swap-halves",
	// forgeries made without any key: the victim chunk is replaced by an unsigned,
	// unencrypted chunk carrying a well-formed service message ("forge-plaintext"),
	// or an unsecured OpenSecureChannel chunk naming policy #None is slipped in
	// after the victim, followed by unsecured MSG chunks ("forge-opn-none": a
	// downgrade attempt on a channel that was opened with Sign / SignAndEncrypt)
	"forge-plaintext", "forge-plaintext", "forge-opn-none", "forge-opn-none"}

func (r *tamperRun) setup(s *sim.Sim, mode string) {
	p := s.Plan
	s.DrawPolicy()
	loadKeys()
	r.Mode = mode
	for {
		r.Cfg = drawSecCfg(p, true)
		if r.Cfg.ClientBits <= 2048 && r.Cfg.ServerBits <= 2048 || p.Intn(4) == 0 {
			break
		}
	}
	r.Chunk = sim.Pick(p, uint32(8192), 8192, 16384)
	r.SegMode = p.Intn(2)
	mb := refMaxBody(r.Cfg, int(r.Chunk))
	n := 2 + p.Intn(3)
	for i := 0; i < n; i++ {
		r.Sizes = append(r.Sizes, sim.Pick(p, 100, 300, mb-10, mb+50, 2*mb+20))
	}
	r.Plan.Dir = sim.Pick(p, "c2s", "s2c")
	r.Plan.Victim = p.Intn(6)
	if mode == "c09" {
		if p.Chance(1, 8) {
			r.Plan.Victim = -1 // the OPN chunk
		}
		r.Plan.Kind = c09Kinds[p.Intn(len(c09Kinds))]
	} else {
		r.Plan.Kind = "replay"
		r.Plan.Later = sim.Pick(p, 0, 0, 1, 2, 5)
		r.Renew = p.Chance(1, 4)
	}
	r.Plan.A, r.Plan.B = p.Intn(1<<20), p.Intn(256)
}

func (r *tamperRun) Main(s *sim.Sim) {
	prop := "C09"
	if r.Mode == "c10" {
		prop = "C10"
	}
	s.Net.DefSegMode = r.SegMode
	ctx := context.Background()
	ora := newSecOracle(s, r.Cfg, "C08")
	pol := refcodec.Policies[r.Cfg.Policy]
	var mu sync.Mutex
	seen := map[string]int{} // MSG chunks seen per direction
	tampered := false
	var victimReq uint32 // request id of the message the victim chunk belongs to
	var held []byte
	countdown := -1
	var conn0 *sim.Conn
	// the tap sees chunks in write order; the oracle attached before it has already opened them
	var lastPlain = map[string]*refcodec.Chunk{}
	ora.OnPlain = func(dir string, ch *refcodec.Chunk) { lastPlain[dir] = ch }
	// bodies of the keyless forgeries: a WriteRequest with marker 0 (the server
	// side flags any delivered marker 0 as a message nobody sent) and a
	// ReadResponse whose payload matches no request
	forgedReq := func() []byte {
		q, _ := c07Request(0, 32)
		q.RequestHeader = &ua.RequestHeader{AuthenticationToken: ua.NewTwoByteNodeID(0), Timestamp: time.Now(), AdditionalHeader: ua.NewExtensionObject(nil)}
		b, _ := encodeService(q)
		return b
	}()
	forgedResp := func() []byte {
		b, _ := encodeService(&ua.ReadResponse{ResponseHeader: rawRespHeader(1, ua.StatusOK), Results: []*ua.DataValue{{EncodingMask: ua.DataValueValue, Value: ua.MustVariant([]byte("forged"))}}})
		return b
	}()
	forgedOpen := func(renew bool) []byte {
		q := &ua.OpenSecureChannelRequest{RequestHeader: &ua.RequestHeader{AuthenticationToken: ua.NewTwoByteNodeID(0), Timestamp: time.Now(), AdditionalHeader: ua.NewExtensionObject(nil)},
			RequestType: ua.SecurityTokenRequestTypeIssue, SecurityMode: ua.MessageSecurityModeNone, RequestedLifetime: 3600000}
		if renew {
			q.RequestType = ua.SecurityTokenRequestTypeRenew
		}
		b, _ := encodeService(q)
		return b
	}
	forgedOpenAt := -1 // number of server->client OPN chunks seen when the forged open was injected
	s2cOpens := 0
	tap := func(dir string) sim.Tap {
		return sim.TapFunc(func(d *sim.Dir, fr []byte) [][]byte {
			mu.Lock()
			defer mu.Unlock()
			typ := string(fr[:3])
			out := [][]byte{fr}
			if dir == "s2c" && typ == "OPN" {
				s2cOpens++
			}
			if countdown >= 0 && dir == r.Plan.Dir {
				if countdown == 0 {
					out = append(out, held)
					s.Fault("replay-late")
					countdown = -1
				} else {
					countdown--
				}
			}
			isVictim := false
			if dir == r.Plan.Dir && !tampered {
				if typ == "OPN" && r.Plan.Victim == -1 && len(ora.tokens) == 0 {
					isVictim = true
				}
				if typ == "MSG" {
					if seen[dir] == r.Plan.Victim {
						isVictim = true
					}
					seen[dir]++
				}
			}
			if !isVictim {
				return out
			}
			tampered = true
			if ch := lastPlain[dir]; ch != nil {
				victimReq = ch.RequestID
			}
			s.Fault(r.Plan.Kind)
			f := append([]byte(nil), fr...)
			fix := func(b []byte) []byte { binary.LittleEndian.PutUint32(b[4:], uint32(len(b))); return b }
			sigLen := pol.SymSigLen
			switch r.Plan.Kind {
			case "replay":
				if r.Plan.Later == 0 {
					s.Fault("dup-chunk")
					return [][]byte{fr, fr}
				}
				held, countdown = f, r.Plan.Later-1
				return [][]byte{fr}
			case "flip":
				f[r.Plan.A%len(f)] ^= byte(1 + r.Plan.B%255)
			case "flip-many":
				for k := 0; k < 2+r.Plan.B%7; k++ {
					f[(r.Plan.A+k*977)%len(f)] ^= byte(1 + (r.Plan.B+k)%255)
				}
			case "truncate":
				f = f[:8+r.Plan.A%(len(f)-8)]
			case "truncate-fixsize":
				cuts := []int{8, 12, 15, 16, 17, 23, 24, 24 + sigLen - 1, 24 + sigLen, len(f) - sigLen, len(f) - 16, len(f) - 1}
				n := cuts[r.Plan.A%len(cuts)]
				if n < 8 || n >= len(f) {
					n = 8 + r.Plan.A%(len(f)-8)
				}
				f = fix(f[:n])
			case "extend":
				f = append(f, make([]byte, 1+r.Plan.B%64)...)
			case "extend-fixsize":
				f = fix(append(f, bytes.Repeat([]byte{byte(r.Plan.B)}, 1+r.Plan.A%48)...))
			case "zero-signature":
				for i := len(f) - sigLen; i < len(f) && i >= 0; i++ {
					f[i] = 0
				}
			case "strip-signature":
				if len(f) > sigLen+24 {
					f = fix(f[:len(f)-sigLen])
				}
			case "swap-halves":
				h := 16 + (len(f)-16)/2/16*16
				if h+16 < len(f) {
					tmp := append([]byte(nil), f[16:h]...)
					copy(f[16:], f[h:h+len(tmp)])
					copy(f[16+len(tmp):], tmp)
				}
			case "forge-plaintext":
				ch := lastPlain[dir]
				if typ != "MSG" || ch == nil {
					f[len(f)-1] ^= 1
					break
				}
				body := forgedReq
				if dir == "s2c" {
					body = forgedResp
				}
				f = (&refcodec.Chunk{Type: "MSG", ChunkType: 'F', ChannelID: ch.ChannelID, TokenID: ch.TokenID, Seq: ch.Seq, RequestID: ch.RequestID, Body: body}).EncodePlain()
			case "forge-opn-none":
				ch := lastPlain[dir]
				if typ == "OPN" && dir == "s2c" && lastPlain["c2s"] != nil {
					// the server's answer to the client's OpenSecureChannel request is replaced by an
					// unsecured one naming policy #None (a peer without any key "opens" the channel)
					rq := lastPlain["c2s"]
					body, _ := encodeService(&ua.OpenSecureChannelResponse{ResponseHeader: rawRespHeader(rq.RequestID, ua.StatusOK),
						SecurityToken: &ua.ChannelSecurityToken{ChannelID: 4242, TokenID: 7, CreatedAt: time.Now(), RevisedLifetime: 3600000}, ServerNonce: []byte{}})
					f = (&refcodec.Chunk{Type: "OPN", ChunkType: 'F', ChannelID: 4242, PolicyURI: refcodec.PolicyNone, Seq: 1, RequestID: rq.RequestID, Body: body}).EncodePlain()
					break
				}
				if typ != "MSG" || ch == nil || dir != "c2s" {
					f[len(f)-1] ^= 1
					break
				}
				// the genuine chunk passes; then the downgrade attempt
				forgedOpenAt = s2cOpens
				// whatever the server channel emits from here on that the
				// reference cannot open is the consequence of the forgery
				ora.blame("C09")
				opn := (&refcodec.Chunk{Type: "OPN", ChunkType: 'F', ChannelID: ch.ChannelID, PolicyURI: refcodec.PolicyNone, Seq: ch.Seq + 1, RequestID: ch.RequestID + 5000, Body: forgedOpen(r.Plan.B%2 == 0)}).EncodePlain()
				out = append(out, opn)
				for k, tok := range []uint32{ch.TokenID, ch.TokenID + 1, 0} {
					out = append(out, (&refcodec.Chunk{Type: "MSG", ChunkType: 'F', ChannelID: ch.ChannelID, TokenID: tok, Seq: ch.Seq + 2 + uint32(k), RequestID: ch.RequestID + 5001 + uint32(k), Body: forgedReq}).EncodePlain())
				}
				victimReq = 0 // the victim itself is genuine
				return out
			case "reseal-wrong-keys", "reseal-direction-keys":
				if typ != "MSG" || len(ora.tokens) == 0 {
					f[len(f)-1] ^= 1
					break
				}
				tk := ora.tokens[len(ora.tokens)-1]
				ch := lastPlain[dir]
				var k refcodec.SymKeys
				if r.Plan.Kind == "reseal-direction-keys" {
					// protected with the receiver's own sending keys (reflection style forgery)
					k = tk.server
					if dir == "s2c" {
						k = tk.client
					}
				} else {
					k = refcodec.SymKeys{Sign: bytes.Repeat([]byte{byte(r.Plan.B)}, pol.SymSigKey), Enc: bytes.Repeat([]byte{7}, pol.SymEncKey), IV: bytes.Repeat([]byte{9}, pol.SymBlock)}
				}
				if sealed, err := pol.SealSym(ch.EncodePlain(), k, refcodec.Mode(r.Cfg.Mode)); err == nil {
					f = sealed
				}
			}
			out[len(out)-1] = f
			return out
		})
	}
	s.Net.OnConn = func(c *sim.Conn) {
		conn0 = c
		ora.attach(c)
		c.C2S.Tap, c.S2C.Tap = tap("c2s"), tap("s2c")
	}
	_ = conn0

	ack := &uacp.Acknowledge{ReceiveBufSize: r.Chunk, SendBufSize: r.Chunk, MaxChunkCount: 4096, MaxMessageSize: 64 << 20}
	l, err := uacp.Listen(ctx, srvURL, ack)
	if err != nil {
		s.Fail("HARNESS", "setup", "listen", "%v", err)
		return
	}
	defer l.Close()
	respBase := func() int {
		b, _ := encodeService(&ua.ReadResponse{ResponseHeader: rawRespHeader(1, ua.StatusOK), Results: []*ua.DataValue{{EncodingMask: ua.DataValueValue, Value: ua.MustVariant([]byte{})}}})
		return len(b)
	}()
	reqBase := func() int {
		q, _ := c07Request(1, 0)
		q.RequestHeader = &ua.RequestHeader{AuthenticationToken: ua.NewTwoByteNodeID(0), Timestamp: time.Now(), AdditionalHeader: ua.NewExtensionObject(nil)}
		b, _ := encodeService(q)
		return len(b)
	}()
	type delivery struct {
		reqID, marker uint32
		payloadOK     bool
	}
	var srvDelivered []delivery
	var srvErrs []string
	go func() {
		conn, err := l.Accept(ctx)
		if err != nil {
			return
		}
		errch := make(chan error, 16)
		srvCfg := &uasc.Config{SecurityPolicyURI: ua.SecurityPolicyURINone, SecurityMode: ua.MessageSecurityModeNone, Lifetime: 3600000,
			Certificate: key("server", r.Cfg.ServerBits).Cert, LocalKey: key("server", r.Cfg.ServerBits).Key}
		sc, err := uasc.NewServerSecureChannel("", conn, srvCfg, errch, 4242, 100, 7)
		if err != nil {
			return
		}
		for {
			msg := sc.Receive(ctx)
			if msg.Err != nil {
				mu.Lock()
				srvErrs = append(srvErrs, msg.Err.Error())
				n := len(srvErrs)
				mu.Unlock()
				if n > 20 {
					return
				}
				if msg.RequestID == 0 {
					return
				}
				continue
			}
			wr, ok := msg.Request().(*ua.WriteRequest)
			if !ok {
				if msg.Request() != nil {
					mu.Lock()
					srvDelivered = append(srvDelivered, delivery{reqID: msg.RequestID, marker: 0})
					mu.Unlock()
				}
				continue
			}
			dl := delivery{reqID: msg.RequestID}
			if len(wr.NodesToWrite) == 1 && wr.NodesToWrite[0].Value != nil && wr.NodesToWrite[0].Value.Value != nil {
				dl.marker = wr.NodesToWrite[0].NodeID.IntID()
				pl, _ := wr.NodesToWrite[0].Value.Value.Value().([]byte)
				dl.payloadOK = bytes.Equal(pl, fill(dl.marker, len(pl)))
			}
			mu.Lock()
			srvDelivered = append(srvDelivered, dl)
			mu.Unlock()
			mi := int(dl.marker) - 1
			n := 0
			if mi >= 0 && mi < len(r.Sizes) {
				n = r.Sizes[mi] - respBase
			}
			resp := &ua.ReadResponse{ResponseHeader: rawRespHeader(wr.RequestHeader.RequestHandle, ua.StatusOK), Results: []*ua.DataValue{{EncodingMask: ua.DataValueValue, Value: ua.MustVariant(fill(dl.marker+100, n))}}}
			sc.SendResponseWithContext(ctx, msg.RequestID, resp)
		}
	}()
	d := &uacp.Dialer{ClientACK: &uacp.Acknowledge{ReceiveBufSize: r.Chunk, SendBufSize: r.Chunk}}
	conn, err := d.Dial(ctx, srvURL)
	if err != nil {
		s.Fail("HARNESS", "setup", "dial", "%v", err)
		return
	}
	errch := make(chan error, 64)
	ck, sk := key("client", r.Cfg.ClientBits), key("server", r.Cfg.ServerBits)
	cfg := &uasc.Config{SecurityPolicyURI: r.Cfg.uri(), SecurityMode: r.Cfg.mode(), Lifetime: 3600000, RequestTimeout: 3 * time.Second,
		Certificate: ck.Cert, LocalKey: ck.Key, RemoteCertificate: sk.Cert, Thumbprint: thumbprint(sk.Cert)}
	sc, err := uasc.NewSecureChannel(srvURL, conn, cfg, errch)
	if err == nil {
		octx, cancel := context.WithTimeout(ctx, 10*time.Second)
		err = sc.Open(octx)
		cancel()
	}
	if err != nil {
		if r.Plan.Victim == -1 && tampered {
			s.Probe("tampered-open-rejected")
			s.Nontrivial()
			return
		}
		s.Fail("HARNESS", "setup", "open", "open failed without tampering: %v", err)
		return
	}
	if r.Plan.Victim == -1 && tampered && r.Mode == "c09" && r.Plan.Kind != "extend" {
		s.Fail("C09", "tampered-chunk-accepted", "OPN-"+r.Plan.Kind, "the %s OpenSecureChannel chunk was modified (%s) and the channel opened all the same", r.Plan.Dir, r.Plan.Kind)
		return
	}
	type cliRes struct {
		err     error
		calls   int
		good    bool
		garbage bool
	}
	results := make([]cliRes, len(r.Sizes))
	reqIDs := map[uint32]int{} // request id -> message index (from the oracle)
	for i, size := range r.Sizes {
		if r.Renew && i == 1 {
			sc.Renew(ctx)
		}
		marker := uint32(i + 1)
		req, _ := c07Request(marker, size-reqBase)
		res := &results[i]
		before := 0
		if ch := lastPlain["c2s"]; ch != nil {
			before = int(ch.RequestID)
		}
		res.err = sc.SendRequestWithTimeout(ctx, req, nil, 3*time.Second, func(v ua.Response) error {
			res.calls++
			rr, ok := v.(*ua.ReadResponse)
			if ok && len(rr.Results) == 1 && rr.Results[0].Value != nil {
				if pl, ok := rr.Results[0].Value.Value().([]byte); ok && bytes.Equal(pl, fill(marker+100, len(pl))) {
					res.good = true
					return nil
				}
			}
			res.garbage = true
			return nil
		})
		if ch := lastPlain["c2s"]; ch != nil && int(ch.RequestID) != before {
			reqIDs[ch.RequestID] = i
		}
		if s.Failed() {
			return
		}
	}
	time.Sleep(2 * time.Second) // late replays
	defer func() {
		s.Teardown()
		sc.Close()
		conn.Close()
	}()
	mu.Lock()
	defer mu.Unlock() // released before the deferred close above runs
	if !tampered {
		s.Probe("victim-chunk-never-came")
		return
	}
	s.Nontrivial()
	if os.Getenv("DBG_C09") != "" && r.Plan.Kind == "forge-opn-none" {
		fmt.Fprintf(os.Stderr, "DBG forge-opn-none at=%d opens=%d srvErrs=%v delivered=%v\n", forgedOpenAt, s2cOpens, srvErrs, srvDelivered)
	}
	if forgedOpenAt >= 0 && s2cOpens > forgedOpenAt {
		s.Fail("C09", "forged-open-answered", "unsecured-OPN-on-secured-channel", "an unsigned, unencrypted OpenSecureChannel chunk naming policy #None was injected into a %s/%d channel and the server channel answered it with an OpenSecureChannel response (security downgrade)", r.Cfg.Policy, r.Cfg.Mode)
		return
	}
	// nothing that was not sent may ever be delivered
	for _, dl := range srvDelivered {
		if dl.marker == 0 || !dl.payloadOK {
			sig := "server-delivered-garbage"
			if r.Mode == "c10" && r.Plan.Later == 0 {
				// a verbatim copy right behind its original is filtered by the receiver on the
				// unchanged tree (only later re-insertion is the catalogued finding)
				sig = "server-delivered-garbage-after-adjacent-duplicate"
			}
			s.Fail(prop, "forged-message-delivered", sig, "the server channel delivered a message nobody sent (request id %d, marker %d) after %s of a %s chunk; %s/%d", dl.reqID, dl.marker, r.Plan.Kind, r.Plan.Dir, r.Cfg.Policy, r.Cfg.Mode)
			return
		}
	}
	for i, res := range results {
		if res.garbage {
			sig := "client-delivered-garbage"
			if r.Mode == "c10" && r.Plan.Later == 0 {
				sig = "client-delivered-garbage-after-adjacent-duplicate"
			}
			s.Fail(prop, "forged-message-delivered", sig, "request %d: the client channel handed a response nobody sent to the caller after %s of a %s chunk", i, r.Plan.Kind, r.Plan.Dir)
			return
		}
	}
	if r.Mode == "c09" && r.Plan.Kind == "forge-opn-none" && forgedOpenAt >= 0 {
		s.Probe("forged-open-not-answered")
	} else if r.Mode == "c09" && r.Plan.Kind != "extend" {
		// (bytes appended after a chunk without touching it are a separate piece of
		// junk on the stream: the chunk itself is genuine and may be delivered)
		// the message that contained the tampered chunk must not have been delivered
		vi, known := reqIDs[victimReq]
		if r.Plan.Dir == "c2s" {
			for _, dl := range srvDelivered {
				if dl.reqID == victimReq {
					s.Fail("C09", "tampered-chunk-accepted", "c2s-"+r.Plan.Kind, "request id %d contained a chunk modified by '%s' (a=%d b=%d) and was delivered by the server channel; %s/%d keys %d/%d", victimReq, r.Plan.Kind, r.Plan.A, r.Plan.B, r.Cfg.Policy, r.Cfg.Mode, r.Cfg.ClientBits, r.Cfg.ServerBits)
					return
				}
			}
			s.Probe("tampered-request-rejected")
		} else if known {
			if results[vi].good {
				s.Fail("C09", "tampered-chunk-accepted", "s2c-"+r.Plan.Kind, "the response to request %d contained a chunk modified by '%s' (a=%d b=%d) and was handed to the caller; %s/%d", vi, r.Plan.Kind, r.Plan.A, r.Plan.B, r.Cfg.Policy, r.Cfg.Mode)
				return
			}
			s.Probe("tampered-response-rejected")
		}
	} else {
		// no request id is delivered twice
		cnt := map[uint32]int{}
		for _, dl := range srvDelivered {
			cnt[dl.reqID]++
			if cnt[dl.reqID] > 1 {
				s.Fail("C10", "replayed-chunk-delivered", "server-delivered-twice", "request id %d was delivered %d times by the server channel after its chunk was replayed (later=%d, renewed in between=%v); %s/%d", dl.reqID, cnt[dl.reqID], r.Plan.Later, r.Renew, r.Cfg.Policy, r.Cfg.Mode)
				return
			}
		}
		for i, res := range results {
			if res.calls > 1 {
				s.Fail("C10", "replayed-chunk-delivered", "client-delivered-twice", "the response to request %d was handed to the caller %d times", i, res.calls)
				return
			}
		}
		s.Probe("replay-not-delivered")
	}
	_ = fmt.Sprint
}

func (r *tamperRun) Finish(s *sim.Sim) {}

type c09Run struct{ tamperRun }
type c10Run struct{ tamperRun }

func (r *c09Run) Setup(s *sim.Sim) { r.setup(s, "c09") }
func (r *c10Run) Setup(s *sim.Sim) { r.setup(s, "c10") }

func init() {
	Register(&Scenario{Name: "c09", Props: []string{"C09"}, Horizon: 10 * time.Minute, MaxSteps: 800000, New: func() Run { return &c09Run{} }, StuckProperty: "C09"})
	Register(&Scenario{Name: "c10", Props: []string{"C10"}, Horizon: 10 * time.Minute, MaxSteps: 800000, New: func() Run { return &c10Run{} }, StuckProperty: "C10"})
}
