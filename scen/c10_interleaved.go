//go:build verif

package scen

import (
	"bytes"
	"context"
	"fmt"
	"sync"
	"time"

	"github.com/gopcua/opcua/ua"
	"github.com/gopcua/opcua/uacp"
	"github.com/gopcua/opcua/uasc"

	"verif/refcodec"
	"verif/sim"
)

// C10 (second scenario): verbatim copies of intermediate chunks inside
// interleaved multi-chunk messages.
//
// gopcua's own sender never interleaves the chunks of two messages, a
// conforming peer may (C12). Here the reference client sends two or three
// multi-chunk requests interleaved by request id over a secured channel to a
// real server-kind channel, and an adversary re-sends some intermediate chunk
// verbatim right behind its original *in that request's chunk sequence* -
// chunks of the other requests may lie in between on the wire. Each request
// must be delivered exactly once and unharmed.

type c10iRun struct {
	Cfg     secCfg `json:"cfg"`
	Msgs    int    `json:"messages"`
	Chunks  []int  `json:"chunks_per_message"`
	DupMsg  int    `json:"dup_message"`
	DupIdx  int    `json:"dup_chunk"`
	Gap     int    `json:"foreign_chunks_between_original_and_copy"`
	SegMode int    `json:"seg_mode"`
}

func (r *c10iRun) Sample() any { return r }

func (r *c10iRun) Setup(s *sim.Sim) {
	p := s.Plan
	s.DrawPolicy()
	loadKeys()
	for {
		r.Cfg = drawSecCfg(p, true)
		if r.Cfg.ClientBits <= 2048 && r.Cfg.ServerBits <= 2048 {
			break
		}
	}
	r.Msgs = 2 + p.Intn(2)
	for i := 0; i < r.Msgs; i++ {
		r.Chunks = append(r.Chunks, 3+p.Intn(3))
	}
	r.DupMsg = p.Intn(r.Msgs)
	r.DupIdx = p.Intn(r.Chunks[r.DupMsg] - 1) // an intermediate chunk
	r.Gap = p.Intn(3)
	r.SegMode = p.Intn(2)
}

func (r *c10iRun) Main(s *sim.Sim) {
	ctx, cancel := context.WithCancel(context.Background())
	defer cancel()
	s.Net.DefSegMode = r.SegMode
	ack := &uacp.Acknowledge{ReceiveBufSize: 8192, SendBufSize: 8192, MaxChunkCount: 4096, MaxMessageSize: 64 << 20}
	l, err := uacp.Listen(ctx, srvURL, ack)
	if err != nil {
		s.Fail("HARNESS", "setup", "listen", "%v", err)
		return
	}
	defer l.Close()
	type delivery struct {
		marker uint32
		ok     bool
	}
	var mu sync.Mutex
	var delivered []delivery
	var srvErrs []string
	go func() {
		conn, err := l.Accept(ctx)
		if err != nil {
			return
		}
		sk := key("server", r.Cfg.ServerBits)
		srvCfg := &uasc.Config{SecurityPolicyURI: ua.SecurityPolicyURINone, SecurityMode: ua.MessageSecurityModeNone, Lifetime: 3600000, Certificate: sk.Cert, LocalKey: sk.Key}
		sc, err := uasc.NewServerSecureChannel("", conn, srvCfg, make(chan error, 16), 4242, 100, 7)
		if err != nil {
			return
		}
		for {
			msg := sc.Receive(ctx)
			if msg.Err != nil {
				mu.Lock()
				srvErrs = append(srvErrs, msg.Err.Error())
				n := len(srvErrs)
				mu.Unlock()
				if n > 10 || msg.RequestID == 0 {
					return
				}
				continue
			}
			wr, ok := msg.Request().(*ua.WriteRequest)
			if !ok {
				continue
			}
			d := delivery{}
			if len(wr.NodesToWrite) == 1 && wr.NodesToWrite[0].Value != nil && wr.NodesToWrite[0].Value.Value != nil {
				d.marker = wr.NodesToWrite[0].NodeID.IntID()
				pl, _ := wr.NodesToWrite[0].Value.Value.Value().([]byte)
				d.ok = bytes.Equal(pl, fill(d.marker, len(pl))) && len(pl) > 0
			}
			mu.Lock()
			delivered = append(delivered, d)
			mu.Unlock()
		}
	}()
	sec := r.Cfg
	cl, err := dialRawClient(s, srvAddr, refcodec.Hello{RecvBuf: 8192, SendBuf: 8192, Endpoint: srvURL}, &sec)
	if err != nil {
		s.Fail("HARNESS", "setup", "rawclient", "%v", err)
		return
	}
	defer cl.Close()
	if err := cl.Open(3600000, false); err != nil {
		s.Fail("HARNESS", "setup", "open", "reference client could not open a %s/%d channel: %v", r.Cfg.Policy, r.Cfg.Mode, err)
		return
	}
	const part = 1500 // body bytes per chunk
	// sealed chunks per message
	frames := make([][][]byte, r.Msgs)
	type slot struct{ m, k int }
	var order []slot
	// round robin interleaving by request id
	for k := 0; ; k++ {
		any := false
		for m := 0; m < r.Msgs; m++ {
			if k < r.Chunks[m] {
				order = append(order, slot{m, k})
				any = true
			}
		}
		if !any {
			break
		}
	}
	bodies := make([][][]byte, r.Msgs)
	for m := 0; m < r.Msgs; m++ {
		marker := uint32(m + 1)
		q, _ := c07Request(marker, part*r.Chunks[m]-part/2-120)
		q.RequestHeader = &ua.RequestHeader{AuthenticationToken: ua.NewTwoByteNodeID(0), Timestamp: time.Now(), RequestHandle: marker, AdditionalHeader: ua.NewExtensionObject(nil)}
		body, err := encodeService(q)
		if err != nil {
			s.Fail("HARNESS", "setup", "encode", "%v", err)
			return
		}
		var cuts []int
		for k := 1; k < r.Chunks[m]; k++ {
			cuts = append(cuts, k*len(body)/r.Chunks[m])
		}
		bodies[m] = refcodec.SplitBody(body, cuts)
		frames[m] = make([][]byte, len(bodies[m]))
	}
	// sequence numbers follow the wire order of the originals
	var wire [][]byte
	orig, next := -1, -1
	for _, sl := range order {
		if sl.k >= len(bodies[sl.m]) {
			continue
		}
		cl.seq++
		ch := &refcodec.Chunk{Type: "MSG", ChunkType: 'C', ChannelID: cl.ChannelID, TokenID: cl.TokenID, Seq: cl.seq, RequestID: uint32(100 + sl.m), Body: bodies[sl.m][sl.k]}
		if sl.k == len(bodies[sl.m])-1 {
			ch.ChunkType = 'F'
		}
		fr, err := cl.seal(ch)
		if err != nil {
			s.Fail("HARNESS", "setup", "seal", "%v", err)
			return
		}
		if sl.m == r.DupMsg && sl.k == r.DupIdx {
			orig = len(wire)
		}
		if sl.m == r.DupMsg && sl.k == r.DupIdx+1 {
			next = len(wire)
		}
		wire = append(wire, fr)
	}
	if orig < 0 || next < 0 {
		s.Fail("HARNESS", "setup", "plan", "duplicate position not found")
		return
	}
	// the verbatim copy: behind its original, after at most Gap chunks of other
	// requests, before the next chunk of its own request
	at := orig + 1 + r.Gap
	if at > next {
		at = next
	}
	dup := append([]byte(nil), wire[orig]...)
	wire = append(wire[:at], append([][]byte{dup}, wire[at:]...)...)
	s.Fault("dup-intermediate-chunk")
	for _, fr := range wire {
		if _, err := cl.nc.Write(fr); err != nil {
			break
		}
	}
	time.Sleep(3 * time.Second)
	mu.Lock()
	defer mu.Unlock()
	s.Nontrivial()
	cnt := map[uint32]int{}
	for _, d := range delivered {
		cnt[d.marker]++
		if !d.ok {
			s.Fail("C10", "replayed-chunk-corrupts-message", "interleaved-adjacent-duplicate", "request with marker %d was delivered with a damaged payload after an intermediate chunk of request %d (chunk %d of %d) was re-sent verbatim right behind its original (%d chunks of other requests in between); %s/%d; receive errors %v",
				d.marker, r.DupMsg+1, r.DupIdx, r.Chunks[r.DupMsg], r.Gap, r.Cfg.Policy, r.Cfg.Mode, srvErrs)
			return
		}
	}
	for m := 0; m < r.Msgs; m++ {
		switch n := cnt[uint32(m+1)]; {
		case n > 1:
			s.Fail("C10", "replayed-chunk-delivered", "interleaved-message-delivered-twice", "request %d was delivered %d times", m+1, n)
			return
		case n == 0 && m != r.DupMsg:
			// a request whose chunks were not touched must arrive (the one carrying the copy may be refused)
			s.Fail("C10", "untouched-message-lost", "interleaved-neighbour-lost", "request %d, none of whose chunks was replayed, was not delivered after a chunk of request %d was duplicated; receive errors %v", m+1, r.DupMsg+1, srvErrs)
			return
		case n == 1:
			s.Probe("delivered-once")
		default:
			s.Probe("message-with-copy-refused")
		}
	}
	_ = fmt.Sprint
	s.Teardown()
}

func (r *c10iRun) Finish(s *sim.Sim) {}

func init() {
	Register(&Scenario{Name: "c10i", Props: []string{"C10"}, Horizon: 5 * time.Minute, MaxSteps: 400000, New: func() Run { return &c10iRun{} }, StuckProperty: "C10"})
}
