//go:build verif

package scen

import (
	"context"
	"fmt"
	"sync"
	"time"

	"github.com/gopcua/opcua/ua"
	"github.com/gopcua/opcua/uacp"
	"github.com/gopcua/opcua/uasc"

	"verif/refcodec"
	"verif/sim"
)

// C11: outgoing sequence numbers increase by one per chunk, even across renewals.
// C16: security token renewal keeps the channel usable.
//
// A real uasc client channel with several sender goroutines (single and
// multi chunk requests), explicit Renew calls and short token lifetimes
// against the scripted server. The wire oracle parses every chunk with the
// reference codec.

type seqOracle struct {
	s       *sim.Sim
	prop    string
	name    string
	last    uint32
	have    bool
	openReq uint32 // request id of the multi chunk message in progress
	openHas bool
	chunks  int
	wraps   int
	multi   int
	failed  bool
	history []string
	// renewSeen: a second OPN chunk (a renewal) was seen in this direction
	// (client->server) or announced by the scenario (server->client)
	opnSeen   int
	renewSeen bool
	abandoned map[uint32]bool
}

// context separates violations that need a renewal from those that do not:
// the open known finding for the client (a sender holding the old channel
// instance across a renewal) cannot occur before the first renewal starts.
func (o *seqOracle) context() string {
	if o.renewSeen {
		return "-after-renewal-started"
	}
	return "-without-renewal"
}

// frame checks one chunk written in this direction.
func (o *seqOracle) frame(fr []byte) {
	if o.failed {
		return
	}
	t := refcodec.FrameType(fr)
	if len(t) < 4 || (t[:3] != "MSG" && t[:3] != "OPN" && t[:3] != "CLO") {
		return
	}
	ch, err := refcodec.ParsePlainChunk(fr)
	if err != nil {
		o.failed = true
		o.s.Fail(o.prop, "malformed-chunk", o.name, "chunk on the wire does not parse: %v (%d bytes, %q)", err, len(fr), t)
		return
	}
	o.chunks++
	if ch.Type == "OPN" {
		o.opnSeen++
		if o.opnSeen > 1 {
			o.renewSeen = true
		}
	}
	o.history = append(o.history, fmt.Sprintf("%s%c seq=%d req=%d", ch.Type, ch.ChunkType, ch.Seq, ch.RequestID))
	if len(o.history) > 12 {
		o.history = o.history[1:]
	}
	if o.have {
		switch {
		case ch.Seq == o.last+1:
		case o.last >= 0xffffffff-1024 && ch.Seq < 1024:
			o.wraps++
			o.s.Probe("seq-wrapped-" + o.name)
		default:
			o.failed = true
			kind := "gap"
			if ch.Seq == o.last {
				kind = "duplicate"
			} else if ch.Seq < o.last {
				kind = "backwards"
			}
			o.s.Fail(o.prop, "sequence-number", kind+"-"+o.name+o.context(), "%s: chunk carries sequence number %d after %d; last chunks: %v", o.name, ch.Seq, o.last, o.history)
			return
		}
	}
	o.last, o.have = ch.Seq, true
	if o.abandoned[ch.RequestID] {
		// chunks of another request were written after this request's intermediate chunks,
		// and now it goes on: that is interleaving
		o.failed = true
		o.s.Fail(o.prop, "interleaved-chunks", o.name+o.context(), "%s: request %d goes on after chunks of another request were written in between; last chunks: %v", o.name, ch.RequestID, o.history)
		return
	}
	if o.openHas && ch.RequestID != o.openReq {
		// the open message may have been given up (its sender's context ended between two
		// chunks): only if it ever goes on is this interleaving
		if o.abandoned == nil {
			o.abandoned = map[uint32]bool{}
		}
		o.abandoned[o.openReq] = true
		o.openHas = false
		o.s.Probe("multi-chunk-message-abandoned-" + o.name)
	}
	switch ch.ChunkType {
	case 'C':
		if !o.openHas {
			o.multi++
		}
		o.openHas, o.openReq = true, ch.RequestID
	default:
		o.openHas = false
	}
}

type renewPlan struct {
	Senders      int    `json:"senders"`
	PerSender    int    `json:"requests_per_sender"`
	BigEvery     int    `json:"multi_chunk_every"` // every n-th request is multi chunk (0: never)
	Renews       int    `json:"explicit_renews"`
	LifetimeMs   uint32 `json:"lifetime_ms"`
	StartSeq     uint32 `json:"start_seq"`
	ThinkMs      int    `json:"think_ms"`
	LatencyUs    int    `json:"latency_us"`
	FreshToken   bool   `json:"fresh_token_on_renew"`
	RenewDelayMs int    `json:"first_renew_after_ms"`
	// CancelEvery > 0: every n-th request of a sender is issued with a context that is
	// already cancelled (or ends within a millisecond); it may fail, nothing else may
	CancelEvery int `json:"cancelled_context_every,omitempty"`
	// WindowBytes > 0: the client's writes go through a finite send window (a peer that
	// reads with some delay), so that a multi-chunk request blocks between two chunks
	WindowBytes int `json:"client_send_window,omitempty"`
	// RealServer: the peer is a real server-kind uasc.SecureChannel whose
	// responses are sent by concurrent responder goroutines instead of the script
	RealServer   bool   `json:"real_server_channel"`
	Responders   int    `json:"responders,omitempty"`
	SrvStartSeq  uint32 `json:"server_start_seq,omitempty"`
	BigRespEvery int    `json:"multi_chunk_response_every,omitempty"`
	DurationS    int    `json:"duration_lifetimes"`
}

type renewRun struct {
	renewPlan
	Mode string `json:"mode"`
}

func (r *renewRun) Sample() any { return r }

func (r *renewRun) setup(s *sim.Sim, mode string) {
	p := s.Plan
	s.DrawPolicy()
	r.Mode = mode
	r.Senders = 1 + p.Intn(4)
	r.PerSender = 2 + p.Intn(10)
	r.BigEvery = sim.Pick(p, 0, 2, 3)
	r.ThinkMs = sim.Pick(p, 0, 1, 10, 100)
	r.LatencyUs = sim.Pick(p, 0, 200, 2000)
	r.FreshToken = p.Bool()
	r.CancelEvery = sim.Pick(p, 0, 0, 3, 5)
	if p.Intn(3) == 0 {
		r.WindowBytes = 4096
	}
	r.StartSeq = sim.Pick(p, uint32(0), 0, 0xffffffff-1030, 0xffffffff-1024-3)
	if mode == "c11" {
		// a fifth of the runs has no renewal at all: whatever goes wrong
		// there cannot be put down to the (known) renewal window
		r.Renews = p.Intn(5)
		r.LifetimeMs = 3600000
		r.RenewDelayMs = sim.Pick(p, 0, 0, 1, 10, 100)
		if p.Chance(2, 5) {
			r.RealServer = true
			r.Responders = 1 + p.Intn(4)
			r.SrvStartSeq = sim.Pick(p, uint32(0), 100, 0xffffffff-1030, 0xffffffff-1024-3)
			r.BigRespEvery = sim.Pick(p, 0, 2, 3)
		}
	} else {
		r.Renews = 0
		r.LifetimeMs = sim.Pick(p, uint32(300), 1000, 1500, 2100, 2500, 4000, 8000, 30000, 120000)
		r.DurationS = 3 + p.Intn(3)
		// think time in proportion to the lifetime: 20-400 requests per sender and run
		r.ThinkMs = int(r.LifetimeMs) * r.DurationS / sim.Pick(p, 20, 60, 200, 400)
		if r.ThinkMs < 1 {
			r.ThinkMs = 1
		}
	}
}

func (r *renewRun) Main(s *sim.Sim) {
	if r.RealServer {
		r.mainRealServer(s)
		return
	}
	srv, err := newRawServer(s, srvAddr)
	if err != nil {
		s.Fail("HARNESS", "setup", "rawsrv", "%v", err)
		return
	}
	defer srv.Close()
	srv.FreshTokenOnRenew = r.FreshToken
	srv.Ack = refcodec.Ack{RecvBuf: 8192, SendBuf: 8192, MaxMsg: 1 << 20, MaxChunks: 64}
	s.Net.DefLatency = time.Duration(r.LatencyUs) * time.Microsecond
	c2s := &seqOracle{s: s, prop: "C11", name: "client->server"}
	type opnEv struct {
		at    time.Duration
		renew bool
	}
	type tokEv struct {
		at       time.Duration
		created  time.Time
		lifetime uint32
	}
	var mu sync.Mutex
	var opns []opnEv
	var toks []tokEv
	s.Net.OnConn = func(c *sim.Conn) {
		c.C2S.Observers = append(c.C2S.Observers, c2s.frame)
		c.C2S.Window = r.WindowBytes
	}
	srv.OnOpen = func(c *rawSrvConn, reqID uint32, req *ua.OpenSecureChannelRequest) bool {
		mu.Lock()
		opns = append(opns, opnEv{at: s.Now(), renew: req.RequestType == ua.SecurityTokenRequestTypeRenew})
		toks = append(toks, tokEv{at: s.Now(), created: time.Now(), lifetime: req.RequestedLifetime})
		mu.Unlock()
		return true
	}
	srv.OnRequest = func(c *rawSrvConn, reqID uint32, req ua.Request) {
		if rr, ok := req.(*ua.ReadRequest); ok {
			c.Respond(reqID, &ua.ReadResponse{ResponseHeader: rawRespHeader(rr.RequestHeader.RequestHandle, ua.StatusOK), Results: []*ua.DataValue{{EncodingMask: ua.DataValueValue, Value: ua.MustVariant(rr.MaxAge)}}})
		}
	}
	ctx := context.Background()
	d := &uacp.Dialer{ClientACK: &uacp.Acknowledge{ReceiveBufSize: 8192, SendBufSize: 8192}}
	conn, err := d.Dial(ctx, srvURL)
	if err != nil {
		s.Fail("HARNESS", "setup", "dial", "%v", err)
		return
	}
	errch := make(chan error, 256)
	cfg := &uasc.Config{SecurityPolicyURI: ua.SecurityPolicyURINone, SecurityMode: ua.MessageSecurityModeNone, Lifetime: r.LifetimeMs, RequestTimeout: 5 * time.Second}
	sc, err := uasc.NewSecureChannel(srvURL, conn, cfg, errch)
	if err == nil {
		err = sc.Open(ctx)
	}
	if err != nil {
		s.Fail("HARNESS", "setup", "open", "%v", err)
		return
	}
	if r.StartSeq != 0 {
		sc.VerifSetSequenceNumber(r.StartSeq)
		c2s.have = false // the jump is ours
	}
	life := time.Duration(r.LifetimeMs) * time.Millisecond
	var wg sync.WaitGroup
	var failed []string
	stop := make(chan struct{})
	call := func(marker float64, big bool) {
		cctx, doomed := ctx, false
		if r.CancelEvery > 0 && int(marker)%r.CancelEvery == 2 {
			doomed = true
			var cancel context.CancelFunc
			if int(marker)%2 == 0 {
				cctx, cancel = context.WithCancel(ctx)
				cancel()
			} else {
				cctx, cancel = context.WithTimeout(ctx, time.Millisecond)
				defer cancel()
			}
		}
		req := &ua.ReadRequest{MaxAge: marker}
		n := 1
		if big {
			n = 400 // ~ 3 chunks of 8 KB
		}
		for k := 0; k < n; k++ {
			req.NodesToRead = append(req.NodesToRead, &ua.ReadValueID{NodeID: ua.NewStringNodeID(1, "some.node.name.to.fill.space"), AttributeID: ua.AttributeIDValue, DataEncoding: &ua.QualifiedName{}})
		}
		var got float64 = -1
		err := sc.SendRequestWithTimeout(cctx, req, nil, 5*time.Second, func(v ua.Response) error {
			if rr, ok := v.(*ua.ReadResponse); ok && len(rr.Results) == 1 && rr.Results[0].Value != nil {
				got, _ = rr.Results[0].Value.Value().(float64)
			}
			return nil
		})
		if doomed && err != nil {
			s.Probe("request-with-ended-context-failed")
			return
		}
		if err != nil || got != marker {
			mu.Lock()
			failed = append(failed, fmt.Sprintf("request %v at %v: err=%v got=%v", marker, s.Now(), err, got))
			mu.Unlock()
		} else {
			s.Probe("request-ok")
		}
	}
	for w := 0; w < r.Senders; w++ {
		wg.Add(1)
		go func(w int) {
			defer wg.Done()
			for i := 0; ; i++ {
				if r.Mode == "c11" && i >= r.PerSender {
					return
				}
				select {
				case <-stop:
					return
				default:
				}
				if r.ThinkMs > 0 {
					time.Sleep(time.Duration(r.ThinkMs) * time.Millisecond)
				}
				s.Yield("sender")
				call(float64(w*10000+i), r.BigEvery > 0 && i%r.BigEvery == 1)
			}
		}(w)
	}
	for k := 0; k < r.Renews; k++ {
		wg.Add(1)
		go func(k int) {
			defer wg.Done()
			time.Sleep(time.Duration(k*r.ThinkMs+r.RenewDelayMs) * time.Millisecond)
			s.Yield("renewer")
			if err := sc.Renew(ctx); err != nil {
				mu.Lock()
				failed = append(failed, fmt.Sprintf("Renew: %v", err))
				mu.Unlock()
			} else {
				s.Probe("explicit-renew-ok")
			}
		}(k)
	}
	if r.Mode == "c16" {
		run := time.Duration(r.DurationS) * life
		if run > 4*time.Minute {
			run = 4 * time.Minute
		}
		if run < 2*time.Second {
			run = 2 * time.Second
		}
		time.Sleep(run)
		close(stop)
	}
	done := make(chan struct{})
	go func() { wg.Wait(); close(done) }()
	select {
	case <-done:
	case <-time.After(60 * time.Second):
		s.Fail("C16", "hang", "senders-or-renew-blocked", "requests / Renew calls did not return within 60 s around a renewal\n%s", clientStacks())
		return
	}
	// (race mode delivers without passing the wire observers: judge by the calls' own probes there)
	if c2s.multi > 0 && (len(opns) > 1) || s.Free() && s.ProbeCount("request-ok") > 0 && (r.Mode == "c16" || s.ProbeCount("explicit-renew-ok") > 0) {
		s.Nontrivial()
	}
	s.Info["wire"] = fmt.Sprintf("chunks=%d multi=%d wraps=%d opn=%d", c2s.chunks, c2s.multi, c2s.wraps, len(opns))
	// C16 (b): every request issued around renewals succeeds
	if len(failed) > 0 && !s.Failed() {
		s.Fail("C16", "request-failed-around-renewal", "request-failed", "%d requests / renew calls failed although the network is fault free: %v", len(failed), failed[:min(len(failed), 4)])
		return
	}
	select {
	case e := <-errch:
		if !s.Failed() {
			s.Fail("C16", "channel-error", "error-reported", "the channel reported %v on a fault free network", e)
			return
		}
	default:
	}
	// C16 (a): timer driven renewals happen once per token, no earlier than L/2 and before L
	if r.Mode == "c16" && !s.Failed() {
		mu.Lock()
		opns, toks := append([]opnEv(nil), opns...), append([]tokEv(nil), toks...)
		mu.Unlock()
		for i := 1; i < len(opns); i++ {
			if !opns[i].renew {
				continue
			}
			age := opns[i].at - toks[i-1].at
			L := time.Duration(toks[i-1].lifetime) * time.Millisecond
			switch {
			case age < L/2:
				s.Fail("C16", "renewal-timing", "renewed-before-half-lifetime", "token %d (lifetime %v) was renewed after %v, i.e. before half of its lifetime", i-1, L, age)
				return
			case age >= L:
				s.Fail("C16", "renewal-timing", "renewed-after-expiry", "token %d (lifetime %v) was renewed only after %v", i-1, L, age)
				return
			}
			s.Probe("renewal-in-window")
		}
		// the last token must not be left unrenewed past its lifetime while the channel is in use
		if n := len(toks); n > 0 {
			L := time.Duration(toks[n-1].lifetime) * time.Millisecond
			if s.Now()-toks[n-1].at > L+time.Second {
				s.Fail("C16", "renewal-timing", "token-not-renewed", "the last token (issued at %v, lifetime %v) was never renewed although the channel was in use until %v", toks[n-1].at, L, s.Now())
				return
			}
		}
	}
	s.Teardown()
	sc.Close()
	conn.Close()
}

func (r *renewRun) Finish(s *sim.Sim) {}

// mainRealServer: real client channel <-> real server-kind channel. The
// server side answers every request from one of several responder goroutines
// (SendResponseWithContext), single and multi chunk, while the client renews
// the token; both directions are checked on the wire.
func (r *renewRun) mainRealServer(s *sim.Sim) {
	ctx, cancel := context.WithCancel(context.Background())
	defer cancel()
	s.Net.DefLatency = time.Duration(r.LatencyUs) * time.Microsecond
	c2s := &seqOracle{s: s, prop: "C11", name: "client->server"}
	s2c := &seqOracle{s: s, prop: "C11", name: "server->client"}
	s.Net.OnConn = func(c *sim.Conn) {
		c.C2S.Observers = append(c.C2S.Observers, c2s.frame)
		c.C2S.Window = r.WindowBytes
		c.S2C.Observers = append(c.S2C.Observers, func(fr []byte) {
			s2c.renewSeen = c2s.renewSeen // a renewal is requested by the client
			s2c.frame(fr)
		})
	}
	ack := &uacp.Acknowledge{ReceiveBufSize: 8192, SendBufSize: 8192, MaxMessageSize: 1 << 20, MaxChunkCount: 64}
	l, err := uacp.Listen(ctx, srvURL, ack)
	if err != nil {
		s.Fail("HARNESS", "setup", "listen", "%v", err)
		return
	}
	defer l.Close()
	var mu sync.Mutex
	var failed []string
	var srvWG sync.WaitGroup
	srvErr := make(chan error, 8)
	go func() {
		conn, err := l.Accept(ctx)
		if err != nil {
			return
		}
		errch := make(chan error, 64)
		start := r.SrvStartSeq
		if start == 0 {
			start = 100
		}
		ssc, err := uasc.NewServerSecureChannel("", conn, &uasc.Config{SecurityPolicyURI: ua.SecurityPolicyURINone, SecurityMode: ua.MessageSecurityModeNone, Lifetime: r.LifetimeMs}, errch, 4242, start, 7)
		if err != nil {
			srvErr <- err
			return
		}
		work := make(chan *uasc.MessageBody, 256)
		for w := 0; w < r.Responders; w++ {
			srvWG.Add(1)
			go func(w int) {
				defer srvWG.Done()
				for msg := range work {
					rr, ok := msg.Request().(*ua.ReadRequest)
					if !ok {
						continue
					}
					s.Yield("responder")
					n := 0
					if r.BigRespEvery > 0 && int(rr.MaxAge)%r.BigRespEvery == 1 {
						n = 20000 // ~3 chunks of 8 KB
					}
					resp := &ua.ReadResponse{ResponseHeader: rawRespHeader(rr.RequestHeader.RequestHandle, ua.StatusOK), Results: []*ua.DataValue{{EncodingMask: ua.DataValueValue, Value: ua.MustVariant(rr.MaxAge)}, {EncodingMask: ua.DataValueValue, Value: ua.MustVariant(make([]byte, n))}}}
					if err := ssc.SendResponseWithContext(ctx, msg.RequestID, resp); err != nil {
						mu.Lock()
						failed = append(failed, fmt.Sprintf("server: SendResponse for request id %d at %v: %v", msg.RequestID, s.Now(), err))
						mu.Unlock()
					}
				}
			}(w)
		}
		defer close(work)
		for {
			msg := ssc.Receive(ctx)
			if msg.Err != nil {
				srvErr <- msg.Err
				return
			}
			select {
			case work <- msg:
			default:
				srvErr <- fmt.Errorf("harness: responder queue full")
				return
			}
		}
	}()
	d := &uacp.Dialer{ClientACK: &uacp.Acknowledge{ReceiveBufSize: 8192, SendBufSize: 8192}}
	conn, err := d.Dial(ctx, srvURL)
	if err != nil {
		s.Fail("HARNESS", "setup", "dial", "%v", err)
		return
	}
	errch := make(chan error, 256)
	cfg := &uasc.Config{SecurityPolicyURI: ua.SecurityPolicyURINone, SecurityMode: ua.MessageSecurityModeNone, Lifetime: r.LifetimeMs, RequestTimeout: 5 * time.Second}
	sc, err := uasc.NewSecureChannel(srvURL, conn, cfg, errch)
	if err == nil {
		err = sc.Open(ctx)
	}
	if err != nil {
		s.Fail("HARNESS", "setup", "open", "%v", err)
		return
	}
	if r.StartSeq != 0 {
		sc.VerifSetSequenceNumber(r.StartSeq)
		c2s.have = false
	}
	var wg sync.WaitGroup
	call := func(marker float64, big bool) {
		cctx, doomed := ctx, false
		if r.CancelEvery > 0 && int(marker)%r.CancelEvery == 2 {
			doomed = true
			var cancel context.CancelFunc
			if int(marker)%2 == 0 {
				cctx, cancel = context.WithCancel(ctx)
				cancel()
			} else {
				cctx, cancel = context.WithTimeout(ctx, time.Millisecond)
				defer cancel()
			}
		}
		req := &ua.ReadRequest{MaxAge: marker}
		n := 1
		if big {
			n = 400
		}
		for k := 0; k < n; k++ {
			req.NodesToRead = append(req.NodesToRead, &ua.ReadValueID{NodeID: ua.NewStringNodeID(1, "some.node.name.to.fill.space"), AttributeID: ua.AttributeIDValue, DataEncoding: &ua.QualifiedName{}})
		}
		var got float64 = -1
		err := sc.SendRequestWithTimeout(cctx, req, nil, 5*time.Second, func(v ua.Response) error {
			if rr, ok := v.(*ua.ReadResponse); ok && len(rr.Results) == 2 && rr.Results[0].Value != nil {
				got, _ = rr.Results[0].Value.Value().(float64)
			}
			return nil
		})
		if doomed && err != nil {
			s.Probe("request-with-ended-context-failed")
			return
		}
		if err != nil || got != marker {
			mu.Lock()
			failed = append(failed, fmt.Sprintf("request %v at %v: err=%v got=%v", marker, s.Now(), err, got))
			mu.Unlock()
		} else {
			s.Probe("request-ok")
		}
	}
	for w := 0; w < r.Senders; w++ {
		wg.Add(1)
		go func(w int) {
			defer wg.Done()
			for i := 0; i < r.PerSender; i++ {
				if r.ThinkMs > 0 {
					time.Sleep(time.Duration(r.ThinkMs) * time.Millisecond)
				}
				s.Yield("sender")
				call(float64(w*10000+i), r.BigEvery > 0 && i%r.BigEvery == 1)
			}
		}(w)
	}
	for k := 0; k < r.Renews; k++ {
		wg.Add(1)
		go func(k int) {
			defer wg.Done()
			time.Sleep(time.Duration(k*r.ThinkMs+r.RenewDelayMs) * time.Millisecond)
			s.Yield("renewer")
			if err := sc.Renew(ctx); err != nil {
				mu.Lock()
				failed = append(failed, fmt.Sprintf("Renew: %v", err))
				mu.Unlock()
			} else {
				s.Probe("explicit-renew-ok")
			}
		}(k)
	}
	done := make(chan struct{})
	go func() { wg.Wait(); close(done) }()
	select {
	case <-done:
	case <-time.After(60 * time.Second):
		s.Fail("C16", "hang", "senders-or-renew-blocked", "requests / Renew calls did not return within 60 s around a renewal (real server channel)\n%s", clientStacks())
		return
	}
	if (s2c.multi > 0 || c2s.multi > 0) && c2s.opnSeen > 1 || s.Free() && s.ProbeCount("request-ok") > 0 && s.ProbeCount("explicit-renew-ok") > 0 {
		s.Nontrivial()
	}
	if s2c.multi > 0 {
		s.Probe("multi-chunk-response")
	}
	if s2c.wraps > 0 {
		s.Probe("seq-wrapped-server->client")
	}
	s.Info["wire"] = fmt.Sprintf("c2s chunks=%d multi=%d wraps=%d opn=%d; s2c chunks=%d multi=%d wraps=%d", c2s.chunks, c2s.multi, c2s.wraps, c2s.opnSeen, s2c.chunks, s2c.multi, s2c.wraps)
	if len(failed) > 0 && !s.Failed() {
		s.Fail("C16", "request-failed-around-renewal", "request-failed-real-server-channel", "%d requests / renew calls / responses failed although the network is fault free: %v", len(failed), failed[:min(len(failed), 4)])
		return
	}
	select {
	case e := <-srvErr:
		if !s.Failed() {
			s.Fail("C16", "channel-error", "server-channel-error", "the server channel ended with %v on a fault free network", e)
			return
		}
	case e := <-errch:
		if !s.Failed() {
			s.Fail("C16", "channel-error", "error-reported", "the channel reported %v on a fault free network", e)
			return
		}
	default:
	}
	s.Teardown()
	sc.Close()
	conn.Close()
	cancel()
}

type c11Run struct{ renewRun }
type c16Run struct{ renewRun }

func (r *c11Run) Setup(s *sim.Sim) { r.setup(s, "c11") }
func (r *c16Run) Setup(s *sim.Sim) { r.setup(s, "c16") }

func init() {
	Register(&Scenario{Name: "c11", Props: []string{"C11", "C16"}, Horizon: 10 * time.Minute, MaxSteps: 800000, New: func() Run { return &c11Run{} }, StuckProperty: "C16"})
	Register(&Scenario{Name: "c16", Props: []string{"C16", "C11"}, Horizon: 10 * time.Minute, MaxSteps: 800000, New: func() Run { return &c16Run{} }, StuckProperty: "C16"})
}
