//go:build verif

package scen

import (
	"bytes"
	"context"
	"fmt"
	"sync"
	"time"

	"github.com/gopcua/opcua/ua"
	"github.com/gopcua/opcua/uacp"
	"github.com/gopcua/opcua/uasc"

	"verif/refcodec"
	"verif/sim"
)

// C12: chunk streams from any conforming peer are reassembled correctly.
//
// The reference codec plays a conforming sender: messages split at arbitrary
// points, interleaved by request id, sequence numbers that wrap to any value
// below 1024 (including 0), abort chunks. The real uasc receiver (server kind
// via Receive, client kind via the dispatcher) must deliver exactly the
// non-aborted messages.

type c12Msg struct {
	Size   int `json:"size"` // payload bytes
	Chunks int `json:"chunks"`
	Abort  int `json:"abort"` // >0: aborted after that many intermediate chunks
	cuts   []int
	body   []byte
	marker float64
}

type c12Run struct {
	ServerKind bool     `json:"server_kind"`
	FirstSeq   uint32   `json:"first_seq"`
	WrapTo     uint32   `json:"wrap_to"`
	Msgs       []c12Msg `json:"msgs"`
	Order      []int    `json:"interleave"` // message index per emitted chunk
	SegMode    int      `json:"seg_mode"`
}

func (r *c12Run) Sample() any { return r }

func (r *c12Run) Setup(s *sim.Sim) {
	p := s.Plan
	s.DrawPolicy()
	r.ServerKind = p.Bool()
	r.SegMode = p.Intn(3)
	switch p.Intn(4) {
	case 0:
		r.FirstSeq = uint32(1 + p.Intn(100))
	case 1:
		r.FirstSeq = 0
	default:
		// the wrap happens inside the stream
		r.FirstSeq = 0xffffffff - 1024 - uint32(p.Intn(12))
	}
	r.WrapTo = sim.Pick(p, uint32(0), 0, 1, 2, 500, 1023)
	n := 1 + p.Intn(6)
	for i := 0; i < n; i++ {
		m := c12Msg{Size: sim.Pick(p, 0, 10, 1000, 8000, 30000), Chunks: 1 + p.Intn(8)}
		if p.Chance(1, 5) && m.Chunks > 1 {
			m.Abort = 1 + p.Intn(m.Chunks-1)
		}
		r.Msgs = append(r.Msgs, m)
	}
	// interleaving: repeatedly pick a message that still has chunks to emit
	left := make([]int, n)
	total := 0
	for i, m := range r.Msgs {
		left[i] = m.Chunks
		if m.Abort > 0 {
			left[i] = m.Abort + 1 // intermediate chunks, then the abort chunk
		}
		total += left[i]
	}
	for total > 0 {
		i := p.Intn(n)
		for left[i] == 0 {
			i = (i + 1) % n
		}
		r.Order = append(r.Order, i)
		left[i]--
		total--
	}
}

// stream builds the chunk frames for the plan. build(i) returns the encoded
// service body of message i.
func (r *c12Run) stream(typ string, channelID, tokenID uint32, reqID func(i int) uint32, bodies [][]byte) [][]byte {
	seq := r.FirstSeq
	next := func() uint32 {
		v := seq
		if seq >= 0xffffffff-1024 {
			// Part 6: the number wraps before 2^32-1024 is exceeded; the first
			// number after the wrap is any value below 1024
			seq = r.WrapTo
		} else {
			seq++
		}
		return v
	}
	emitted := make([]int, len(r.Msgs))
	var frames [][]byte
	for _, i := range r.Order {
		m := &r.Msgs[i]
		body := bodies[i]
		parts := refcodec.SplitBody(body, m.cuts)
		k := emitted[i]
		emitted[i]++
		ch := &refcodec.Chunk{Type: typ, ChannelID: channelID, TokenID: tokenID, RequestID: reqID(i), Seq: next()}
		switch {
		case m.Abort > 0 && k == m.Abort:
			ch.ChunkType = 'A'
			ch.Body = refcodec.AbortBody(0x80020000, "aborted by sender")
		case k == len(parts)-1 && m.Abort == 0:
			ch.ChunkType = 'F'
			ch.Body = parts[k]
		default:
			ch.ChunkType = 'C'
			if k < len(parts) {
				ch.Body = parts[k]
			}
		}
		frames = append(frames, ch.EncodePlain())
	}
	return frames
}

func (r *c12Run) prepare(p *sim.Tape, build func(i int, payload []byte) []byte) (bodies, payloads [][]byte) {
	bodies = make([][]byte, len(r.Msgs))
	payloads = make([][]byte, len(r.Msgs))
	for i := range r.Msgs {
		m := &r.Msgs[i]
		payload := make([]byte, m.Size)
		for k := range payload {
			payload[k] = byte(i*31 + k)
		}
		payloads[i] = payload
		bodies[i] = build(i, payload)
		// cut points: Chunks-1 cuts anywhere inside the body (empty chunks allowed at the ends)
		for k := 1; k < m.Chunks; k++ {
			m.cuts = append(m.cuts, k*len(bodies[i])/m.Chunks)
		}
		m.body = bodies[i]
	}
	return bodies, payloads
}

func (r *c12Run) Main(s *sim.Sim) {
	s.Net.DefSegMode = r.SegMode
	ctx := context.Background()
	wrapped := r.FirstSeq >= 0xffffffff-1024-12 || r.FirstSeq == 0
	if r.ServerKind {
		ack := &uacp.Acknowledge{ReceiveBufSize: 65535, SendBufSize: 65535, MaxChunkCount: 512, MaxMessageSize: 2 << 20}
		l, err := uacp.Listen(ctx, srvURL, ack)
		if err != nil {
			s.Fail("HARNESS", "setup", "listen", "%v", err)
			return
		}
		defer l.Close()
		type got struct {
			reqID uint32
			err   error
			body  []byte
		}
		results := make(chan got, 64)
		go func() {
			conn, err := l.Accept(ctx)
			if err != nil {
				return
			}
			errch := make(chan error, 16)
			cfg := &uasc.Config{SecurityPolicyURI: ua.SecurityPolicyURINone, SecurityMode: ua.MessageSecurityModeNone, Lifetime: 3600000}
			sc, err := uasc.NewServerSecureChannel("", conn, cfg, errch, 77, 10, 5)
			if err != nil {
				return
			}
			for {
				msg := sc.Receive(ctx)
				if msg.Err != nil && msg.RequestID == 0 {
					results <- got{err: msg.Err}
					return
				}
				if msg.Err == nil && msg.Request() == nil {
					continue // the OPN exchange
				}
				g := got{reqID: msg.RequestID, err: msg.Err}
				if msg.Err == nil {
					g.body = []byte("not a WriteRequest with one ByteString value")
					if wr, ok := msg.Request().(*ua.WriteRequest); ok && len(wr.NodesToWrite) == 1 && wr.NodesToWrite[0].Value != nil && wr.NodesToWrite[0].Value.Value != nil {
						if b, ok := wr.NodesToWrite[0].Value.Value.Value().([]byte); ok {
							g.body = append([]byte(fmt.Sprintf("h=%d n=%v:", wr.RequestHeader.RequestHandle, wr.NodesToWrite[0].NodeID)), b...)
						}
					}
				}
				results <- g
			}
		}()
		pc, err := s.Net.Dial(ctx, srvAddr)
		if err != nil {
			s.Fail("HARNESS", "setup", "dial", "%v", err)
			return
		}
		defer pc.Close()
		pc.Write(refcodec.Hello{RecvBuf: 65535, SendBuf: 65535, Endpoint: srvURL}.Frame())
		if _, err := refcodec.ReadFrame(pc, 1<<16); err != nil {
			s.Fail("HARNESS", "setup", "ack", "%v", err)
			return
		}
		opn, _ := encodeService(&ua.OpenSecureChannelRequest{RequestHeader: &ua.RequestHeader{AuthenticationToken: ua.NewTwoByteNodeID(0), Timestamp: time.Now(), AdditionalHeader: ua.NewExtensionObject(nil)}, RequestType: ua.SecurityTokenRequestTypeIssue, SecurityMode: ua.MessageSecurityModeNone, ClientNonce: []byte{}, RequestedLifetime: 3600000})
		pc.Write((&refcodec.Chunk{Type: "OPN", ChunkType: 'F', PolicyURI: refcodec.PolicyNone, Seq: 1, RequestID: 1, Body: opn}).EncodePlain())
		pc.SetReadDeadline(time.Now().Add(10 * time.Second))
		fr, err := refcodec.ReadFrame(pc, 1<<16)
		if err != nil {
			s.Fail("C12", "open-failed", "opn", "conforming OpenSecureChannel request not answered: %v", err)
			return
		}
		och, err := refcodec.ParsePlainChunk(fr)
		if err != nil {
			s.Fail("HARNESS", "setup", "opn-parse", "%v", err)
			return
		}
		bodies, payloads := r.prepare(s.Plan, func(i int, payload []byte) []byte {
			req := &ua.WriteRequest{RequestHeader: &ua.RequestHeader{AuthenticationToken: ua.NewTwoByteNodeID(0), Timestamp: time.Now(), RequestHandle: uint32(100 + i), AdditionalHeader: ua.NewExtensionObject(nil)},
				NodesToWrite: []*ua.WriteValue{{NodeID: ua.NewNumericNodeID(1, uint32(i)), AttributeID: ua.AttributeIDValue, Value: &ua.DataValue{EncodingMask: ua.DataValueValue, Value: ua.MustVariant(payload)}}}}
			b, _ := encodeService(req)
			return b
		})
		frames := r.stream("MSG", och.ChannelID, 5, func(i int) uint32 { return uint32(10 + i) }, bodies)
		for _, f := range frames {
			pc.Write(f)
		}
		// expected deliveries, in order of their last chunk
		var want []int
		emitted := make([]int, len(r.Msgs))
		for _, i := range r.Order {
			emitted[i]++
			m := r.Msgs[i]
			if m.Abort > 0 && emitted[i] == m.Abort+1 {
				want = append(want, -(i + 1)) // abort notice
			} else if m.Abort == 0 && emitted[i] == m.Chunks {
				want = append(want, i+1)
			}
		}
		for k, w := range want {
			var g got
			select {
			case g = <-results:
			case <-time.After(10 * time.Second):
				s.Fail("C12", "message-lost", "receive-blocked", "expected delivery %d of %d (message %d) never came; first seq %d wrap to %d", k, len(want), w, r.FirstSeq, r.WrapTo)
				return
			}
			if w < 0 {
				i := -w - 1
				if g.err == nil || g.reqID != uint32(10+i) {
					s.Fail("C12", "abort-mishandled", "abort", "abort of request %d: got reqID=%d err=%v", 10+i, g.reqID, g.err)
					return
				}
				s.Probe("abort-reported")
				continue
			}
			i := w - 1
			if g.err != nil {
				s.Fail("C12", "message-rejected", sigErr(g.err), "message %d (%d chunks, first seq %d, wrap to %d) was rejected: %v", i, r.Msgs[i].Chunks, r.FirstSeq, r.WrapTo, g.err)
				return
			}
			wantBody := append([]byte(fmt.Sprintf("h=%d n=%v:", 100+i, ua.NewNumericNodeID(1, uint32(i)))), payloads[i]...)
			if g.reqID != uint32(10+i) || !bytes.Equal(g.body, wantBody) {
				kind := "body-differs"
				if len(g.body) < len(wantBody) {
					kind = "body-truncated"
				}
				s.Fail("C12", "wrong-message", kind, "message %d (request id %d, %d chunks, %d bytes; first seq %d, wrap to %d): delivered request id %d with %d bytes", i, 10+i, r.Msgs[i].Chunks, len(bodies[i]), r.FirstSeq, r.WrapTo, g.reqID, len(g.body))
				return
			}
			s.Probe("delivered")
		}
		select {
		case g := <-results:
			s.Fail("C12", "extra-message", "unexpected-delivery", "unexpected extra delivery reqID=%d err=%v", g.reqID, g.err)
			return
		case <-time.After(time.Second):
		}
	} else {
		// client kind: the scripted server answers K outstanding requests with an interleaved stream
		srv, err := newRawServer(s, srvAddr)
		if err != nil {
			s.Fail("HARNESS", "setup", "rawsrv", "%v", err)
			return
		}
		defer srv.Close()
		var mu sync.Mutex
		ids := map[int]uint32{}     // message index -> request id
		handles := map[int]uint32{} // message index -> request handle
		var theConn *rawSrvConn
		allIn := make(chan struct{})
		srv.OnRequest = func(c *rawSrvConn, reqID uint32, req ua.Request) {
			rr, ok := req.(*ua.ReadRequest)
			if !ok {
				return
			}
			mu.Lock()
			ids[int(rr.MaxAge)] = reqID
			handles[int(rr.MaxAge)] = rr.RequestHeader.RequestHandle
			theConn = c
			n := len(ids)
			mu.Unlock()
			if n == len(r.Msgs) {
				close(allIn)
			}
		}
		conn, err := uacp.Dial(ctx, srvURL)
		if err != nil {
			s.Fail("HARNESS", "setup", "dial", "%v", err)
			return
		}
		errch := make(chan error, 64)
		cfg := &uasc.Config{SecurityPolicyURI: ua.SecurityPolicyURINone, SecurityMode: ua.MessageSecurityModeNone, Lifetime: 3600000, RequestTimeout: 10 * time.Second}
		sc, err := uasc.NewSecureChannel(srvURL, conn, cfg, errch)
		if err == nil {
			err = sc.Open(ctx)
		}
		if err != nil {
			s.Fail("HARNESS", "setup", "open", "%v", err)
			return
		}
		type res struct {
			err  error
			body []byte
		}
		out := make([]res, len(r.Msgs))
		var wg sync.WaitGroup
		for i := range r.Msgs {
			wg.Add(1)
			go func(i int) {
				defer wg.Done()
				req := &ua.ReadRequest{MaxAge: float64(i), NodesToRead: []*ua.ReadValueID{{NodeID: ua.NewNumericNodeID(0, 1), AttributeID: ua.AttributeIDValue, DataEncoding: &ua.QualifiedName{}}}}
				out[i].err = sc.SendRequestWithTimeout(ctx, req, nil, 8*time.Second, func(v ua.Response) error {
					out[i].body = []byte("not a ReadResponse with one ByteString value")
					if rr, ok := v.(*ua.ReadResponse); ok && len(rr.Results) == 1 && rr.Results[0].Value != nil {
						if b, ok := rr.Results[0].Value.Value().([]byte); ok {
							out[i].body = b
						}
					}
					return nil
				})
			}(i)
		}
		select {
		case <-allIn:
		case <-time.After(5 * time.Second):
			s.Fail("HARNESS", "setup", "requests", "not all requests arrived")
			return
		}
		bodies, payloads := r.prepare(s.Plan, func(i int, payload []byte) []byte {
			resp := &ua.ReadResponse{ResponseHeader: rawRespHeader(handles[i], ua.StatusOK), Results: []*ua.DataValue{{EncodingMask: ua.DataValueValue, Value: ua.MustVariant(payload)}}}
			b, _ := encodeService(resp)
			return b
		})
		frames := r.stream("MSG", theConn.ChannelID, theConn.TokenID, func(i int) uint32 { return ids[i] }, bodies)
		for _, f := range frames {
			theConn.WriteRaw(f)
		}
		wg.Wait()
		for i, m := range r.Msgs {
			if m.Abort > 0 {
				if out[i].err == nil {
					s.Fail("C12", "abort-mishandled", "aborted-message-delivered", "request %d: its response was aborted by the server but the call returned success", i)
					return
				}
				s.Probe("abort-reported")
				continue
			}
			if out[i].err != nil {
				s.Fail("C12", "message-rejected", sigErr(out[i].err), "response %d (%d chunks, %d bytes; first seq %d, wrap to %d) not delivered: %v", i, m.Chunks, len(bodies[i]), r.FirstSeq, r.WrapTo, out[i].err)
				return
			}
			if !bytes.Equal(out[i].body, payloads[i]) {
				kind := "body-differs"
				if len(out[i].body) < len(payloads[i]) {
					kind = "body-truncated"
				}
				s.Fail("C12", "wrong-message", kind, "response %d (%d chunks, %d bytes; first seq %d, wrap to %d): delivered %d bytes", i, m.Chunks, len(bodies[i]), r.FirstSeq, r.WrapTo, len(out[i].body))
				return
			}
			s.Probe("delivered")
		}
		s.Teardown()
		sc.Close()
		conn.Close()
	}
	if wrapped {
		s.Nontrivial()
	}
}

func sigErr(err error) string {
	e := err.Error()
	if len(e) > 40 {
		e = e[:40]
	}
	return fmt.Sprintf("%T:%s", err, e)
}

func (r *c12Run) Finish(s *sim.Sim) {}

func init() {
	Register(&Scenario{Name: "c12", Props: []string{"C12"}, Horizon: 5 * time.Minute, MaxSteps: 600000, New: func() Run { return &c12Run{} }, StuckProperty: "C12"})
}
