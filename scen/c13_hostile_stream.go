//go:build verif

package scen

import (
	"context"
	"encoding/binary"
	"fmt"
	"io"
	"runtime"
	"time"

	"github.com/gopcua/opcua/ua"
	"github.com/gopcua/opcua/uacp"
	"github.com/gopcua/opcua/uasc"

	"verif/refcodec"
	"verif/sim"
)

// C13: the channel receive path survives any peer byte stream.
//
// A hostile raw peer feeds a real uasc receiver (server kind: Receive loop;
// client kind: dispatcher) with mutated OPN/MSG/CLO frames, garbage and
// well-formed but useless streams, before and after the channel is open.
// Limits are negotiated small so that bounds are reachable.

type c13Frame struct {
	Kind string `json:"k"`
	A    int    `json:"a"`
	B    int    `json:"b"`
}

type c13Run struct {
	ServerKind bool       `json:"server_kind"`
	OpenFirst  bool       `json:"open_first"`
	Frames     []c13Frame `json:"frames"`
	EOF        bool       `json:"eof_at_end"`
	SegMode    int        `json:"seg_mode"`
}

func (r *c13Run) Sample() any { return r }

var c13Kinds = []string{"valid-msg", "mutate-size", "mutate-header", "mutate-body", "garbage", "partial-flood", "endless", "bad-opn", "clo", "unknown-type",
	"tiny", "abort", "wrong-channel", "wrong-token", "dup-final", "err-frame", "huge-string", "truncated", "huge-array-length", "opn-service-in-msg", "opn-valid-cert"}

const (
	c13Buf       = 8192
	c13MaxChunks = 4
)

func (r *c13Run) Setup(s *sim.Sim) {
	p := s.Plan
	s.DrawPolicy()
	r.ServerKind = p.Bool()
	r.OpenFirst = p.Intn(4) != 0
	r.SegMode = p.Intn(3)
	r.EOF = p.Bool()
	n := 1 + p.Intn(30)
	for i := 0; i < n; i++ {
		r.Frames = append(r.Frames, c13Frame{Kind: c13Kinds[p.Intn(len(c13Kinds))], A: p.Intn(1 << 16), B: p.Intn(256)})
	}
}

// frames builds the hostile byte strings for one plan entry.
func (r *c13Run) build(f c13Frame, channelID, tokenID uint32, seq *uint32, msgType string) [][]byte {
	next := func() uint32 { *seq++; return *seq }
	validBody := func(n int) []byte {
		var b []byte
		if msgType == "req" {
			b, _ = encodeService(&ua.ReadRequest{RequestHeader: &ua.RequestHeader{AuthenticationToken: ua.NewTwoByteNodeID(0), Timestamp: time.Now(), AdditionalHeader: ua.NewExtensionObject(nil)},
				NodesToRead: []*ua.ReadValueID{{NodeID: ua.NewStringNodeID(1, string(make([]byte, n))), AttributeID: 13, DataEncoding: &ua.QualifiedName{}}}})
		} else {
			b, _ = encodeService(&ua.ReadResponse{ResponseHeader: rawRespHeader(uint32(f.A), ua.StatusOK), Results: []*ua.DataValue{{EncodingMask: ua.DataValueValue, Value: ua.MustVariant(make([]byte, n))}}})
		}
		return b
	}
	chunk := func(ct byte, reqID uint32, body []byte) []byte {
		return (&refcodec.Chunk{Type: "MSG", ChunkType: ct, ChannelID: channelID, TokenID: tokenID, Seq: next(), RequestID: reqID, Body: body}).EncodePlain()
	}
	switch f.Kind {
	case "valid-msg":
		return [][]byte{chunk('F', uint32(1000+f.A), validBody(f.B))}
	case "mutate-size":
		fr := chunk('F', uint32(f.A), validBody(f.B))
		sizes := []uint32{0, 7, 8, 11, 12, 15, 16, 23, 24, uint32(len(fr) - 1), uint32(len(fr) + 1), c13Buf, c13Buf + 1, 0x7fffffff, 0xffffffff}
		binary.LittleEndian.PutUint32(fr[4:], sizes[f.B%len(sizes)])
		return [][]byte{fr}
	case "mutate-header":
		fr := chunk('F', uint32(f.A), validBody(16))
		pos := f.B % 24
		fr[pos] ^= byte(1 + f.A%255)
		return [][]byte{fr}
	case "mutate-body":
		fr := chunk('F', uint32(f.A), validBody(64))
		pos := 24 + f.A%(len(fr)-24)
		fr[pos] ^= byte(1 + f.B)
		return [][]byte{fr}
	case "garbage":
		b := make([]byte, 1+f.A%300)
		for i := range b {
			b[i] = byte(f.B + i*7)
		}
		return [][]byte{b}
	case "partial-flood": // many request ids, one intermediate chunk each
		var out [][]byte
		n := 50 + f.A%400
		for i := 0; i < n; i++ {
			out = append(out, chunk('C', uint32(100000+f.A+i), make([]byte, 1000+f.B*20)))
		}
		return out
	case "endless": // a message that never ends
		var out [][]byte
		n := 2 + f.A%40
		for i := 0; i < n; i++ {
			out = append(out, chunk('C', 77, make([]byte, 4000)))
		}
		return out
	case "bad-opn":
		body := make([]byte, f.B)
		c := &refcodec.Chunk{Type: "OPN", ChunkType: 'F', ChannelID: channelID, PolicyURI: []string{refcodec.PolicyNone, "", "http://opcfoundation.org/UA/SecurityPolicy#Basic256Sha256", "x"}[f.A%4], Seq: next(), RequestID: uint32(f.A), Body: body}
		if f.A%3 == 0 {
			c.Cert = make([]byte, f.B)
		}
		return [][]byte{c.EncodePlain()}
	case "clo":
		return [][]byte{(&refcodec.Chunk{Type: "CLO", ChunkType: 'F', ChannelID: channelID, TokenID: tokenID, Seq: next(), RequestID: uint32(f.A)}).EncodePlain()}
	case "unknown-type":
		fr := chunk('F', uint32(f.A), validBody(4))
		copy(fr, []string{"XYZ", "HEL", "ACK", "RHE", "\x00\x00\x00"}[f.B%5])
		return [][]byte{fr}
	case "tiny":
		return [][]byte{refcodec.Frame("MSGF", make([]byte, f.B%16))}
	case "abort":
		return [][]byte{chunk('A', uint32(f.A), refcodec.AbortBody(uint32(f.A)<<16, string(make([]byte, f.B))))}
	case "wrong-channel":
		c := &refcodec.Chunk{Type: "MSG", ChunkType: 'F', ChannelID: channelID + uint32(1+f.B), TokenID: tokenID, Seq: next(), RequestID: uint32(f.A), Body: validBody(8)}
		return [][]byte{c.EncodePlain()}
	case "wrong-token":
		c := &refcodec.Chunk{Type: "MSG", ChunkType: 'F', ChannelID: channelID, TokenID: tokenID + uint32(1+f.B), Seq: next(), RequestID: uint32(f.A), Body: validBody(8)}
		return [][]byte{c.EncodePlain()}
	case "dup-final":
		fr := chunk('F', uint32(2000+f.A), validBody(8))
		return [][]byte{fr, fr}
	case "err-frame":
		return [][]byte{refcodec.ErrFrame(uint32(f.A)<<16|0x80000000, "x")}
	case "huge-string": // a body whose first length field claims far more than is there
		body := validBody(8)
		if len(body) > 12 {
			binary.LittleEndian.PutUint32(body[len(body)-8:], 0x7ffffff0)
		}
		return [][]byte{chunk('F', uint32(f.A), body)}
	case "huge-array-length": // a well-formed message whose last array claims millions of elements
		var body []byte
		n := []uint32{0x01000000, 0x02000000}[f.B%2]
		if f.B%3 == 2 {
			// the dimension count of a Variant array (each dimension takes four bytes on the wire)
			n *= 2
			v, _ := ua.NewVariant([]int32{5})
			mv := ua.MustVariant([][]int32{{5}}) // one element, dimensions [1 1]
			_ = v
			if msgType == "req" {
				body, _ = encodeService(&ua.WriteRequest{RequestHeader: &ua.RequestHeader{AuthenticationToken: ua.NewTwoByteNodeID(0), Timestamp: time.Now(), AdditionalHeader: ua.NewExtensionObject(nil)},
					NodesToWrite: []*ua.WriteValue{{NodeID: ua.NewNumericNodeID(1, 1), AttributeID: ua.AttributeIDValue, Value: &ua.DataValue{EncodingMask: ua.DataValueValue, Value: mv}}}})
				binary.LittleEndian.PutUint32(body[len(body)-12:], n) // dimensions length, followed by two dimensions
			} else {
				body, _ = encodeService(&ua.ReadResponse{ResponseHeader: rawRespHeader(uint32(f.A), ua.StatusOK), Results: []*ua.DataValue{{EncodingMask: ua.DataValueValue, Value: mv}}})
				binary.LittleEndian.PutUint32(body[len(body)-16:], n) // ... and the DiagnosticInfos length behind them
			}
			return [][]byte{chunk('F', uint32(3000+f.A), body)}
		}
		if msgType == "req" {
			body, _ = encodeService(&ua.ReadRequest{RequestHeader: &ua.RequestHeader{AuthenticationToken: ua.NewTwoByteNodeID(0), Timestamp: time.Now(), AdditionalHeader: ua.NewExtensionObject(nil)}})
			binary.LittleEndian.PutUint32(body[len(body)-4:], n) // NodesToRead
		} else {
			body, _ = encodeService(&ua.ReadResponse{ResponseHeader: rawRespHeader(uint32(f.A), ua.StatusOK)})
			binary.LittleEndian.PutUint32(body[len(body)-8:], n) // Results
		}
		return [][]byte{chunk('F', uint32(3000+f.A), body)}
	case "opn-valid-cert": // an unsolicited OpenSecureChannel chunk that names a real policy and carries a well-formed certificate
		loadKeys()
		c := &refcodec.Chunk{Type: "OPN", ChunkType: 'F', ChannelID: channelID, PolicyURI: "http://opcfoundation.org/UA/SecurityPolicy#" + []string{"Basic256Sha256", "Basic128Rsa15", "Aes256_Sha256_RsaPss"}[f.A%3],
			Cert: key("server", 2048).Cert, Thumb: thumbprint(key("client", 2048).Cert), Seq: next(), RequestID: uint32(f.A), Body: make([]byte, 256*(1+f.B%3))}
		return [][]byte{c.EncodePlain()}
	case "opn-service-in-msg": // an OpenSecureChannel request / response travelling as an ordinary MSG
		var body []byte
		hdr := &ua.RequestHeader{AuthenticationToken: ua.NewTwoByteNodeID(0), Timestamp: time.Now(), AdditionalHeader: ua.NewExtensionObject(nil)}
		switch f.B % 3 {
		case 0:
			body, _ = encodeService(&ua.OpenSecureChannelRequest{RequestHeader: hdr, RequestType: ua.SecurityTokenRequestTypeIssue, SecurityMode: ua.MessageSecurityModeNone, RequestedLifetime: 60000})
		case 1:
			body, _ = encodeService(&ua.OpenSecureChannelRequest{RequestHeader: hdr, RequestType: ua.SecurityTokenRequestTypeRenew, SecurityMode: ua.MessageSecurityModeSign, ClientNonce: make([]byte, 32), RequestedLifetime: 60000})
		default:
			body, _ = encodeService(&ua.OpenSecureChannelResponse{ResponseHeader: rawRespHeader(uint32(f.A), ua.StatusOK), SecurityToken: &ua.ChannelSecurityToken{ChannelID: channelID, TokenID: tokenID + 1, CreatedAt: time.Now(), RevisedLifetime: 60000}, ServerNonce: []byte{}})
		}
		return [][]byte{chunk('F', uint32(4000+f.A), body)}
	case "truncated":
		fr := chunk('F', uint32(f.A), validBody(64))
		cut := 1 + f.B%(len(fr)-1)
		binary.LittleEndian.PutUint32(fr[4:], uint32(cut))
		if cut < 8 {
			return [][]byte{fr[:8]}
		}
		return [][]byte{fr[:cut]}
	}
	return nil
}

func (r *c13Run) Main(s *sim.Sim) {
	s.Net.DefSegMode = r.SegMode
	ctx := context.Background()
	const bound = 4 * c13MaxChunks * c13Buf
	var sc *uasc.SecureChannel
	done := make(chan string, 1)
	var total int
	var frames [][]byte
	var m0 runtime.MemStats
	runtime.ReadMemStats(&m0)

	if r.ServerKind {
		ack := &uacp.Acknowledge{ReceiveBufSize: c13Buf, SendBufSize: c13Buf, MaxChunkCount: c13MaxChunks, MaxMessageSize: c13MaxChunks * c13Buf}
		l, err := uacp.Listen(ctx, srvURL, ack)
		if err != nil {
			s.Fail("HARNESS", "setup", "listen", "%v", err)
			return
		}
		defer l.Close()
		ready := make(chan struct{})
		go func() {
			conn, err := l.Accept(ctx)
			if err != nil {
				close(ready)
				done <- "accept: " + err.Error()
				return
			}
			errch := make(chan error, 16)
			cfg := &uasc.Config{SecurityPolicyURI: ua.SecurityPolicyURINone, SecurityMode: ua.MessageSecurityModeNone, Lifetime: 3600000}
			sc, _ = uasc.NewServerSecureChannel("", conn, cfg, errch, 77, 10, 5)
			close(ready)
			errs := 0
			for {
				msg := sc.Receive(ctx)
				if msg.Err == io.EOF {
					done <- "eof"
					return
				}
				if msg.Err != nil {
					errs++
					s.Probe("receive-error")
					if errs > 2000 {
						done <- "many errors"
						return
					}
				} else {
					s.Probe("receive-ok")
				}
			}
		}()
		pc, err := s.Net.Dial(ctx, srvAddr)
		if err != nil {
			s.Fail("HARNESS", "setup", "dial", "%v", err)
			return
		}
		pc.Write(refcodec.Hello{RecvBuf: c13Buf, SendBuf: c13Buf, Endpoint: srvURL}.Frame())
		pc.SetReadDeadline(time.Now().Add(5 * time.Second))
		if _, err := refcodec.ReadFrame(pc, 1<<16); err != nil {
			s.Fail("HARNESS", "setup", "ack", "%v", err)
			return
		}
		<-ready
		channelID, tokenID := uint32(0), uint32(5)
		seq := uint32(1)
		if r.OpenFirst {
			opn, _ := encodeService(&ua.OpenSecureChannelRequest{RequestHeader: &ua.RequestHeader{AuthenticationToken: ua.NewTwoByteNodeID(0), Timestamp: time.Now(), AdditionalHeader: ua.NewExtensionObject(nil)}, RequestType: ua.SecurityTokenRequestTypeIssue, SecurityMode: ua.MessageSecurityModeNone, ClientNonce: []byte{}, RequestedLifetime: 3600000})
			pc.Write((&refcodec.Chunk{Type: "OPN", ChunkType: 'F', PolicyURI: refcodec.PolicyNone, Seq: 1, RequestID: 1, Body: opn}).EncodePlain())
			pc.SetReadDeadline(time.Now().Add(5 * time.Second))
			fr, err := refcodec.ReadFrame(pc, 1<<16)
			if err != nil {
				s.Fail("HARNESS", "setup", "opn", "%v", err)
				return
			}
			if och, err := refcodec.ParsePlainChunk(fr); err == nil {
				channelID = och.ChannelID
			}
		}
		pc.SetReadDeadline(time.Time{})
		go io.Copy(io.Discard, pc) // the peer does read what the channel sends back
		for _, f := range r.Frames {
			frames = append(frames, r.build(f, channelID, tokenID, &seq, "req")...)
		}
		for _, f := range frames {
			total += len(f)
			if _, err := pc.Write(f); err != nil {
				break
			}
		}
		if r.EOF {
			pc.Close()
		}
		defer pc.Close()
	} else {
		srv, err := newRawServer(s, srvAddr)
		if err != nil {
			s.Fail("HARNESS", "setup", "rawsrv", "%v", err)
			return
		}
		defer srv.Close()
		srv.Ack = refcodec.Ack{RecvBuf: c13Buf, SendBuf: c13Buf, MaxMsg: c13MaxChunks * c13Buf, MaxChunks: c13MaxChunks}
		opened := make(chan *rawSrvConn, 1)
		srv.OnOpen = func(c *rawSrvConn, reqID uint32, req *ua.OpenSecureChannelRequest) bool {
			if !r.OpenFirst {
				// hostile from the very first answer
				opened <- c
				return false
			}
			c.AnswerOpen(reqID, req)
			opened <- c
			return false
		}
		conn, err := uacp.Dial(ctx, srvURL)
		if err != nil {
			s.Fail("HARNESS", "setup", "dial", "%v", err)
			return
		}
		errch := make(chan error, 4096)
		cfg := &uasc.Config{SecurityPolicyURI: ua.SecurityPolicyURINone, SecurityMode: ua.MessageSecurityModeNone, Lifetime: 3600000, RequestTimeout: 2 * time.Second}
		sc, err = uasc.NewSecureChannel(srvURL, conn, cfg, errch)
		if err != nil {
			s.Fail("HARNESS", "setup", "channel", "%v", err)
			return
		}
		openErr := make(chan error, 1)
		go func() {
			octx, cancel := context.WithTimeout(ctx, 5*time.Second)
			defer cancel()
			openErr <- sc.Open(octx)
		}()
		var rc *rawSrvConn
		select {
		case rc = <-opened:
		case <-time.After(5 * time.Second):
			s.Fail("HARNESS", "setup", "open", "no OPN arrived")
			return
		}
		if r.OpenFirst {
			if err := <-openErr; err != nil {
				s.Fail("HARNESS", "setup", "open", "%v", err)
				return
			}
		}
		seq := uint32(50)
		rc.SetSeq(60)
		for _, f := range r.Frames {
			frames = append(frames, r.build(f, rc.ChannelID, rc.TokenID, &seq, "resp")...)
		}
		for _, f := range frames {
			total += len(f)
			if err := rc.WriteRaw(f); err != nil {
				break
			}
		}
		if r.EOF {
			rc.nc.Close()
		}
		if !r.OpenFirst {
			select {
			case <-openErr:
			case <-time.After(8 * time.Second):
				s.Fail("C13", "hang", "open-never-returns", "Open() did not return within its 5 s context after a hostile answer")
				return
			}
		}
		go func() {
			// client kind has no Receive loop of ours: the dispatcher is the receiver
			time.Sleep(3 * time.Second)
			done <- "client"
		}()
	}

	// everything was written; the receiver must digest it without the clock
	// having to run far, stay within its memory bound, and stop at EOF
	select {
	case why := <-done:
		s.Probe("done-" + why)
	case <-time.After(20 * time.Second):
		if r.EOF && r.ServerKind {
			s.Fail("C13", "hang", "receive-does-not-return-after-eof", "the peer closed the connection after %d bytes but Receive never reported EOF", total)
			return
		}
		s.Probe("receiver-still-waiting") // legitimate: it waits for more input
	}
	// what the receiver allocates has to be in proportion to what it was sent: a few
	// hundred bytes must not make it allocate hundreds of megabytes (on a box with
	// less memory that is the end of the process, whatever Receive returns afterwards)
	var m1 runtime.MemStats
	runtime.ReadMemStats(&m1)
	if alloc := int64(m1.TotalAlloc - m0.TotalAlloc); alloc > 96<<20+64*int64(total) {
		s.Fail("C13", "unbounded-allocation", "allocation-out-of-proportion-to-input", "the process allocated %d MB while the channel received %d bytes of hostile input (a length field inside a message is trusted before the bytes are there)", alloc>>20, total)
		return
	}
	if sc != nil {
		ids, chunks, bytes := sc.VerifBufferedChunks()
		s.Info["buffered"] = fmt.Sprintf("ids=%d chunks=%d bytes=%d of %d sent", ids, chunks, bytes, total)
		if ids > 0 && chunks/ids > c13MaxChunks {
			// not the catalogued growth over many request ids: one message alone holds more
			// chunks than the negotiated MaxChunkCount
			s.Fail("C13", "unbounded-buffer", "single-message-exceeds-max-chunk-count", "the channel holds %d chunks (%d bytes) of %d incomplete messages, i.e. more than MaxChunkCount=%d chunks per message", chunks, bytes, ids, c13MaxChunks)
			return
		}
		if bytes > bound {
			s.Fail("C13", "unbounded-buffer", "partial-messages-exceed-negotiated-limits", "the channel holds %d bytes in %d chunks of %d incomplete messages; negotiated MaxChunkCount=%d x ReceiveBufferSize=%d = %d (bound used: 4x = %d)", bytes, chunks, ids, c13MaxChunks, c13Buf, c13MaxChunks*c13Buf, bound)
			return
		}
		if ids > 0 {
			s.Probe("partial-messages-buffered")
		}
	}
	s.Nontrivial()
	s.Teardown()
	if sc != nil && !r.ServerKind {
		sc.Close()
	}
}

func (r *c13Run) Finish(s *sim.Sim) {}

func init() {
	Register(&Scenario{Name: "c13", Props: []string{"C13"}, Horizon: 5 * time.Minute, MaxSteps: 800000, New: func() Run { return &c13Run{} }, StuckProperty: "C13"})
}
