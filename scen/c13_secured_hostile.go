//go:build verif

package scen

import (
	"context"
	"crypto/rand"
	"sync"
	"time"

	"github.com/gopcua/opcua/ua"
	"github.com/gopcua/opcua/uacp"
	"github.com/gopcua/opcua/uasc"

	"verif/refcodec"
	"verif/sim"
)

// C13 (second scenario): a hostile peer that owns valid keys.
//
// The byte-level scenario (c13) speaks security mode None; chunks it corrupts
// under a real policy would fail decryption or the signature check first. Here
// the peer is the reference client with its own certificate: everything it
// sends decrypts and verifies, and lies *inside* the protected part - a
// PaddingSize byte that claims more (or less) padding than there is, in the
// OpenSecureChannel chunk (any TCP peer can send that: it encrypts with the
// server's public certificate and signs with its own key) and in symmetric
// chunks after a proper open; bodies of random bytes under a valid signature;
// unsecured chunks after a secured open. The receiving server-kind channel
// must answer with errors, not with a panic or a hang.

type c13sAct struct {
	Kind  string `json:"k"` // opn-padclaim | msg-padclaim | msg-garbage | msg-plain | msg-valid
	Claim int    `json:"claim"`
	Size  int    `json:"size"`
}

type c13sRun struct {
	Cfg     secCfg    `json:"cfg"`
	Acts    []c13sAct `json:"acts"`
	SegMode int       `json:"seg_mode"`
}

func (r *c13sRun) Sample() any { return r }

func (r *c13sRun) Setup(s *sim.Sim) {
	p := s.Plan
	s.DrawPolicy()
	loadKeys()
	r.Cfg = drawSecCfg(p, true)
	r.SegMode = p.Intn(3)
	claims := []int{0, 1, 15, 16, 17, 31, 100, 200, 254, 255, 256, 300, 511, 1000, 0xffff}
	n := 1 + p.Intn(4)
	for i := 0; i < n; i++ {
		a := c13sAct{Kind: sim.Pick(p, "opn-padclaim", "msg-padclaim", "msg-padclaim", "msg-garbage", "msg-plain", "msg-valid"), Claim: claims[p.Intn(len(claims))], Size: sim.Pick(p, 0, 1, 20, 300, 5000)}
		r.Acts = append(r.Acts, a)
	}
}

func (r *c13sRun) Main(s *sim.Sim) {
	ctx, cancel := context.WithCancel(context.Background())
	defer cancel()
	s.Net.DefSegMode = r.SegMode
	ack := &uacp.Acknowledge{ReceiveBufSize: 65535, SendBufSize: 65535, MaxChunkCount: 16, MaxMessageSize: 1 << 20}
	l, err := uacp.Listen(ctx, srvURL, ack)
	if err != nil {
		s.Fail("HARNESS", "setup", "listen", "%v", err)
		return
	}
	defer l.Close()
	var mu sync.Mutex
	delivered, errs := 0, 0
	ended := make(chan struct{}, 8)
	serve := func(conn *uacp.Conn) {
		sk := key("server", r.Cfg.ServerBits)
		cfg := &uasc.Config{SecurityPolicyURI: ua.SecurityPolicyURINone, SecurityMode: ua.MessageSecurityModeNone, Lifetime: 3600000, Certificate: sk.Cert, LocalKey: sk.Key}
		sc, err := uasc.NewServerSecureChannel("", conn, cfg, make(chan error, 16), 4242, 100, 7)
		if err != nil {
			return
		}
		for {
			msg := sc.Receive(ctx)
			mu.Lock()
			if msg.Err != nil {
				errs++
			} else {
				delivered++
			}
			n := errs
			mu.Unlock()
			if msg.Err != nil && (msg.RequestID == 0 || n > 20) {
				ended <- struct{}{}
				return
			}
			if rr, ok := msg.Request().(*ua.ReadRequest); ok {
				sc.SendResponseWithContext(ctx, msg.RequestID, &ua.ReadResponse{ResponseHeader: rawRespHeader(rr.RequestHeader.RequestHandle, ua.StatusOK), Results: []*ua.DataValue{{EncodingMask: ua.DataValueValue, Value: ua.MustVariant(int32(1))}}})
			}
		}
	}
	go func() {
		for {
			conn, err := l.Accept(ctx)
			if err != nil {
				return
			}
			go serve(conn)
		}
	}()
	sec := r.Cfg
	pol := refcodec.Policies[r.Cfg.Policy]
	ck, sk := key("client", r.Cfg.ClientBits), key("server", r.Cfg.ServerBits)
	dial := func() *rawClient {
		cl, err := dialRawClient(s, srvAddr, refcodec.Hello{RecvBuf: 65535, SendBuf: 65535, Endpoint: srvURL}, &sec)
		if err != nil {
			return nil
		}
		return cl
	}
	openReqBody := func() []byte {
		nonce := make([]byte, pol.NonceLen)
		rand.Read(nonce)
		b, _ := encodeService(&ua.OpenSecureChannelRequest{RequestHeader: &ua.RequestHeader{AuthenticationToken: ua.NewTwoByteNodeID(0), Timestamp: time.Now(), AdditionalHeader: ua.NewExtensionObject(nil)},
			RequestType: ua.SecurityTokenRequestTypeIssue, SecurityMode: r.Cfg.mode(), ClientNonce: nonce, RequestedLifetime: 3600000})
		return b
	}
	var cl *rawClient
	opened := false
	ensureOpen := func() bool {
		if cl != nil && opened {
			return true
		}
		if cl != nil {
			cl.Close()
		}
		if cl = dial(); cl == nil {
			return false
		}
		if err := cl.Open(3600000, false); err != nil {
			cl.Close()
			cl, opened = nil, false
			return false
		}
		opened = true
		return true
	}
	for _, a := range r.Acts {
		s.Fault(a.Kind)
		switch a.Kind {
		case "opn-padclaim":
			// a fresh connection whose very first chunk lies about its padding
			c := dial()
			if c == nil {
				continue
			}
			ch := &refcodec.Chunk{Type: "OPN", ChunkType: 'F', PolicyURI: pol.URI, Cert: ck.Cert, Thumb: thumbprint(sk.Cert), Seq: 1, RequestID: 1, Body: openReqBody()}
			if fr, err := pol.SealAsymPadClaim(ch.EncodePlain(), ck.Key, &sk.Key.PublicKey, a.Claim); err == nil {
				c.nc.Write(fr)
			}
			time.Sleep(200 * time.Millisecond)
			c.Close()
		case "msg-padclaim", "msg-garbage", "msg-plain", "msg-valid":
			if !ensureOpen() {
				s.Probe("open-failed")
				continue
			}
			cl.seq++
			id := cl.nextReq
			cl.nextReq++
			var body []byte
			if a.Kind == "msg-garbage" {
				body = make([]byte, a.Size)
				rand.Read(body)
			} else {
				q := &ua.ReadRequest{RequestHeader: &ua.RequestHeader{AuthenticationToken: ua.NewTwoByteNodeID(0), Timestamp: time.Now(), RequestHandle: id, AdditionalHeader: ua.NewExtensionObject(nil)},
					NodesToRead: []*ua.ReadValueID{{NodeID: ua.NewStringNodeID(1, string(make([]byte, a.Size))), AttributeID: ua.AttributeIDValue, DataEncoding: &ua.QualifiedName{}}}}
				body, _ = encodeService(q)
			}
			ch := &refcodec.Chunk{Type: "MSG", ChunkType: 'F', ChannelID: cl.ChannelID, TokenID: cl.TokenID, Seq: cl.seq, RequestID: id, Body: body}
			var fr []byte
			var err error
			switch a.Kind {
			case "msg-plain":
				fr = ch.EncodePlain()
			case "msg-padclaim":
				fr, err = pol.SealSymPadClaim(ch.EncodePlain(), cl.tokens[cl.TokenID].client, refcodec.Mode(r.Cfg.Mode), a.Claim)
			default:
				fr, err = cl.seal(ch)
			}
			if err != nil {
				continue
			}
			cl.nc.Write(fr)
			if a.Kind == "msg-valid" {
				if _, _, err := cl.Recv(3 * time.Second); err == nil {
					s.Probe("valid-request-answered")
				} else {
					opened = false
				}
			} else {
				time.Sleep(300 * time.Millisecond)
				opened = false // the channel is most probably gone now
			}
		}
	}
	time.Sleep(time.Second)
	s.Nontrivial()
	// the listener still works: a well-behaved peer gets a channel and an answer
	good := dial()
	if good == nil || good.Open(3600000, false) != nil {
		s.Fail("C13", "hang", "secured-open-fails-after-hostile-peer", "a well-behaved reference client cannot open a %s/%d channel after the hostile traffic", r.Cfg.Policy, r.Cfg.Mode)
		return
	}
	if svc, err := good.Request(&ua.ReadRequest{NodesToRead: []*ua.ReadValueID{{NodeID: ua.NewNumericNodeID(1, 1), AttributeID: ua.AttributeIDValue, DataEncoding: &ua.QualifiedName{}}}}, 3*time.Second); err != nil {
		s.Fail("C13", "hang", "secured-request-unanswered-after-hostile-peer", "a well-behaved reference client got no answer after the hostile traffic: %v %T", err, svc)
		return
	}
	s.Probe("well-behaved-peer-served")
	good.Close()
	if cl != nil {
		cl.Close()
	}
	s.Teardown()
}

func (r *c13sRun) Finish(s *sim.Sim) {}

func init() {
	Register(&Scenario{Name: "c13s", Props: []string{"C13"}, Horizon: 5 * time.Minute, MaxSteps: 400000, New: func() Run { return &c13sRun{} }, StuckProperty: "C13"})
}
