//go:build verif

package scen

import (
	"context"
	"fmt"
	"sync"
	"time"

	"github.com/gopcua/opcua/ua"
	"github.com/gopcua/opcua/uacp"
	"github.com/gopcua/opcua/uasc"

	"verif/refcodec"
	"verif/sim"
)

// C17: chunks secured with an expired token are rejected.
//
// A real gopcua client channel with a short token lifetime talks to the
// reference server, which issues a fresh token id at every renewal. For
// drawn requests the server seals its answer under a superseded token's keys,
// before and after that token's lifetime plus 25% has elapsed.

type c17Probe struct {
	AtMs     int `json:"at_ms"`     // when the request is issued
	TokenAge int `json:"token_age"` // how many tokens back the answer is sealed with (0 = current)
}

type c17Run struct {
	Cfg        secCfg     `json:"cfg"`
	LifetimeMs uint32     `json:"lifetime_ms"`
	Probes     []c17Probe `json:"probes"`
	// RenewDelayPct: the server holds back its answer to every renewal request
	// for that share of the lifetime (a slow or stalled server): with 60 the new
	// token arrives only after the old one has passed its lifetime + 25 %
	RenewDelayPct int `json:"renew_delay_pct_of_lifetime"`
}

func (r *c17Run) Sample() any { return r }

func (r *c17Run) Setup(s *sim.Sim) {
	p := s.Plan
	s.DrawPolicy()
	loadKeys()
	for {
		r.Cfg = drawSecCfg(p, true)
		if r.Cfg.ClientBits <= 2048 && r.Cfg.ServerBits <= 2048 {
			break
		}
	}
	r.LifetimeMs = sim.Pick(p, uint32(2000), 4000, 8000)
	r.RenewDelayPct = sim.Pick(p, 0, 0, 0, 20, 45, 60, 60)
	n := 3 + p.Intn(6)
	for i := 0; i < n; i++ {
		r.Probes = append(r.Probes, c17Probe{AtMs: int(r.LifetimeMs)/2 + p.Intn(int(r.LifetimeMs)*5), TokenAge: sim.Pick(p, 0, 1, 1, 2, 3)})
	}
}

func (r *c17Run) Main(s *sim.Sim) {
	srv, err := newRawServer(s, srvAddr)
	if err != nil {
		s.Fail("HARNESS", "setup", "rawsrv", "%v", err)
		return
	}
	defer srv.Close()
	sec := r.Cfg
	srv.Sec = &sec
	srv.FreshTokenOnRenew = true
	L := time.Duration(r.LifetimeMs) * time.Millisecond
	var mu sync.Mutex
	issued := map[uint32]time.Duration{} // token id -> sim time it was issued
	srv.OnOpen = func(c *rawSrvConn, reqID uint32, req *ua.OpenSecureChannelRequest) bool {
		answer := func() {
			c.AnswerOpen(reqID, req)
			mu.Lock()
			issued[c.TokenID] = s.Now()
			mu.Unlock()
		}
		if req.RequestType == ua.SecurityTokenRequestTypeRenew && r.RenewDelayPct > 0 {
			s.Fault("renew-response-held-back")
			go func() {
				time.Sleep(L * time.Duration(r.RenewDelayPct) / 100)
				s.Yield("rawsrv.answer-open")
				answer()
			}()
			return false
		}
		answer()
		return false
	}
	type ans struct {
		token   uint32
		expired bool
		age     time.Duration
	}
	answers := map[float64]ans{}
	srv.OnRequest = func(c *rawSrvConn, reqID uint32, req ua.Request) {
		rr, ok := req.(*ua.ReadRequest)
		if !ok {
			return
		}
		idx := int(rr.MaxAge)
		tok := c.TokenID
		if idx >= 0 && idx < len(r.Probes) {
			back := uint32(r.Probes[idx].TokenAge)
			if back < tok {
				tok -= back
			} else {
				tok = 1
			}
		}
		mu.Lock()
		age := s.Now() - issued[tok]
		expired := tok != c.TokenID && age > L+L/4+100*time.Millisecond
		answers[rr.MaxAge] = ans{tok, expired, age}
		mu.Unlock()
		resp := &ua.ReadResponse{ResponseHeader: rawRespHeader(rr.RequestHeader.RequestHandle, ua.StatusOK), Results: []*ua.DataValue{{EncodingMask: ua.DataValueValue, Value: ua.MustVariant(rr.MaxAge)}}}
		body, _ := encodeService(resp)
		// seal under the chosen token: temporarily present it as the connection's token
		c.mu.Lock()
		c.seq++
		ch := &refcodec.Chunk{Type: "MSG", ChunkType: 'F', ChannelID: c.ChannelID, TokenID: tok, Seq: c.seq, RequestID: reqID, Body: body}
		fr, err := c.seal(ch)
		c.mu.Unlock()
		if err == nil {
			c.WriteRaw(fr)
		}
	}
	ctx := context.Background()
	conn, err := uacp.Dial(ctx, srvURL)
	if err != nil {
		s.Fail("HARNESS", "setup", "dial", "%v", err)
		return
	}
	errch := make(chan error, 256)
	ck, sk := key("client", r.Cfg.ClientBits), key("server", r.Cfg.ServerBits)
	cfg := &uasc.Config{SecurityPolicyURI: r.Cfg.uri(), SecurityMode: r.Cfg.mode(), Lifetime: r.LifetimeMs, RequestTimeout: L + time.Second,
		Certificate: ck.Cert, LocalKey: ck.Key, RemoteCertificate: sk.Cert, Thumbprint: thumbprint(sk.Cert)}
	sc, err := uasc.NewSecureChannel(srvURL, conn, cfg, errch)
	if err == nil {
		err = sc.Open(ctx)
	}
	if err != nil {
		s.Fail("HARNESS", "setup", "open", "%v", err)
		return
	}
	var wg sync.WaitGroup
	type res struct {
		err error
		got float64
	}
	out := make([]res, len(r.Probes))
	for i, pb := range r.Probes {
		wg.Add(1)
		go func(i int, pb c17Probe) {
			defer wg.Done()
			time.Sleep(time.Duration(pb.AtMs) * time.Millisecond)
			s.Yield("c17.probe")
			out[i].got = -1
			req := &ua.ReadRequest{MaxAge: float64(i), NodesToRead: []*ua.ReadValueID{{NodeID: ua.NewNumericNodeID(0, 1), AttributeID: ua.AttributeIDValue, DataEncoding: &ua.QualifiedName{}}}}
			out[i].err = sc.SendRequestWithTimeout(ctx, req, nil, time.Second, func(v ua.Response) error {
				if rr, ok := v.(*ua.ReadResponse); ok && len(rr.Results) == 1 && rr.Results[0].Value != nil {
					out[i].got, _ = rr.Results[0].Value.Value().(float64)
				}
				return nil
			})
		}(i, pb)
	}
	wg.Wait()
	mu.Lock()
	answersCopy := map[float64]ans{}
	for k, v := range answers {
		answersCopy[k] = v
	}
	nIssued := len(issued)
	mu.Unlock()
	for i := range r.Probes {
		a, ok := answersCopy[float64(i)]
		if !ok {
			continue
		}
		if a.expired {
			s.Nontrivial()
			if out[i].err == nil && out[i].got == float64(i) {
				s.Fail("C17", "expired-token-accepted", "client-accepts-superseded-token", "a response sealed with token %d, %v after that token was issued (lifetime %v, +25%% = %v, %d newer tokens exist), was delivered to the caller; %s/%d; channel tokens: %v",
					a.token, a.age.Round(time.Millisecond), L, L+L/4, nIssued-int(a.token), r.Cfg.Policy, r.Cfg.Mode, sc.VerifTokens())
				return
			}
			s.Probe("expired-token-rejected")
		} else if out[i].err == nil {
			s.Probe(fmt.Sprintf("valid-token-accepted-age%d", r.Probes[i].TokenAge))
		} else if a.token != 0 && a.age < L-200*time.Millisecond && r.RenewDelayPct == 0 && r.Probes[i].TokenAge <= 1 {
			// the current token, or the one before it well inside its own lifetime: a server
			// keeps securing its answers with the old token until the client has used the new
			// one, and the client has to accept them (C16: requests around a renewal complete)
			s.Fail("C16", "valid-token-rejected", fmt.Sprintf("age%d-within-lifetime", r.Probes[i].TokenAge), "a response secured with token %d (%d tokens back), %v after that token was issued (lifetime %v), was not accepted: %v; %s/%d; channel tokens: %v",
				a.token, r.Probes[i].TokenAge, a.age.Round(time.Millisecond), L, out[i].err, r.Cfg.Policy, r.Cfg.Mode, sc.VerifTokens())
			return
		}
	}
	s.Teardown()
	sc.Close()
	conn.Close()
}

func (r *c17Run) Finish(s *sim.Sim) {}

func init() {
	Register(&Scenario{Name: "c17", Props: []string{"C17", "C16"}, Horizon: 10 * time.Minute, MaxSteps: 800000, New: func() Run { return &c17Run{} }, StuckProperty: "C17"})
}
