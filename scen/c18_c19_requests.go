//go:build verif

package scen

import (
	"context"
	"fmt"
	"io"
	"sync"
	"time"

	"github.com/gopcua/opcua/ua"
	"github.com/gopcua/opcua/uacp"
	"github.com/gopcua/opcua/uasc"

	"verif/sim"
)

// C18: each request receives its own response, whatever the concurrency and ordering.
// C19: request timeouts are bounded and never wedge the channel.
//
// Real uasc client channel (over real uacp) against the scripted server.

type reqPlan struct {
	Action    string `json:"a"`             // answer | drop | dup | fault | unsolicited-first | wrongtype
	DelayMs   int    `json:"delay_ms"`      // server side delay before answering
	TimeoutMs int    `json:"timeout_ms"`    // request timeout of this call
	CancelMs  int    `json:"cancel_ms"`     // >0: ctx cancelled after that time
	StartMs   int    `json:"start_ms"`      // caller start offset
	Chunks    int    `json:"chunks"`        // answer split into that many chunks
	Tie       int    `json:"tie,omitempty"` // 0 none; 1: answer exactly when the timer fires; 2: 1ns before; 3: 1ns after
}

type chanRun struct {
	Mode      string    `json:"mode"` // c18 | c19
	Seed      uint32    `json:"request_id_seed"`
	Reqs      []reqPlan `json:"reqs"`
	LatencyUs int       `json:"latency_us"`
	Tail      int       `json:"tail_requests"` // requests issued afterwards that must all succeed
	// Renews: token renewals (OpenSecureChannel requests) issued one after the
	// other once the ordinary calls are done; the scripted server answers each
	// relative to the channel's request time-out like an ordinary request
	Renews         []reqPlan `json:"renews,omitempty"`
	RenewTimeoutMs int       `json:"renew_timeout_ms,omitempty"`

	mu        sync.Mutex
	delivered map[float64]int // marker -> number of handler invocations
}

func (r *chanRun) Sample() any { return r }

func (r *chanRun) setup(s *sim.Sim, mode string) {
	p := s.Plan
	s.DrawPolicy()
	r.Mode = mode
	r.Seed = sim.Pick(p, uint32(0), 0, 1, 0xfffffff0, 0xfffffffd, 0xffffffff, 12345)
	r.LatencyUs = sim.Pick(p, 0, 0, 500, 5000)
	r.Tail = 2 + p.Intn(4)
	n := 2 + p.Intn(14)
	if mode == "c18" && p.Chance(1, 5) {
		n = 16 + p.Intn(48)
	}
	spread := p.Chance(1, 3)
	for i := 0; i < n; i++ {
		q := reqPlan{Action: "answer", TimeoutMs: sim.Pick(p, 500, 1000, 2000), StartMs: p.Intn(50), Chunks: 1}
		if spread {
			// calls keep starting while earlier ones time out, are cancelled or get late answers
			q.StartMs = p.Intn(3500)
		}
		if p.Chance(1, 6) {
			q.Chunks = 2 + p.Intn(3)
		}
		if mode == "c18" {
			q.DelayMs = sim.Pick(p, 0, 0, 1, 5, 20, 100)
			switch p.Intn(12) {
			case 0:
				q.Action = "drop"
			case 1:
				q.Action = "dup"
			case 2:
				q.Action = "fault"
			case 3:
				q.Action = "unsolicited-first"
			case 4:
				q.Action = "wrongtype"
			}
		} else {
			T := q.TimeoutMs + 250 // documented leniency
			switch p.Intn(9) {
			case 0, 1:
				q.DelayMs = p.Intn(T / 2)
			case 2:
				q.DelayMs, q.Tie = T, 1
			case 3:
				q.DelayMs, q.Tie = T, 2
			case 4:
				q.DelayMs, q.Tie = T, 3
			case 5:
				q.DelayMs = T + 1 + p.Intn(500)
			case 6:
				q.Action = "drop"
			case 7:
				q.DelayMs = p.Intn(T)
				q.CancelMs = 1 + p.Intn(T)
			default:
				q.Action = "drop"
				q.CancelMs = 1 + p.Intn(T)
			}
		}
		r.Reqs = append(r.Reqs, q)
	}
	if mode == "c19" && p.Chance(1, 2) {
		r.RenewTimeoutMs = sim.Pick(p, 500, 1000)
		T := r.RenewTimeoutMs + 250
		for i, n := 0, 1+p.Intn(3); i < n; i++ {
			q := reqPlan{Action: "answer", TimeoutMs: r.RenewTimeoutMs, Chunks: 1}
			switch p.Intn(9) {
			case 0:
				q.DelayMs = p.Intn(T / 2)
			case 1, 2:
				q.DelayMs, q.Tie = T, 1
			case 3:
				q.DelayMs, q.Tie = T, 2
			case 4:
				q.DelayMs, q.Tie = T, 3
			case 5:
				q.DelayMs = T + 1 + p.Intn(500)
			case 6:
				q.Action = "drop"
			case 7:
				q.DelayMs = p.Intn(T)
				q.CancelMs = 1 + p.Intn(T)
			default:
				q.Action = "drop"
				q.CancelMs = 1 + p.Intn(T)
			}
			r.Renews = append(r.Renews, q)
		}
	}
}

type outcome struct {
	err      error
	marker   float64
	gotType  string
	took     time.Duration
	returned bool
}

func (r *chanRun) Main(s *sim.Sim) {
	prop := "C18"
	if r.Mode == "c19" {
		prop = "C19"
	}
	srv, err := newRawServer(s, srvAddr)
	if err != nil {
		s.Fail("HARNESS", "setup", "rawsrv", "%v", err)
		return
	}
	defer srv.Close()
	s.Net.DefLatency = time.Duration(r.LatencyUs) * time.Microsecond
	r.delivered = map[float64]int{}
	answer := func(c *rawSrvConn, reqID uint32, h uint32, marker float64, chunks int) {
		resp := &ua.ReadResponse{ResponseHeader: rawRespHeader(h, ua.StatusOK), Results: []*ua.DataValue{{EncodingMask: ua.DataValueValue, Value: ua.MustVariant(marker)}}}
		body, _ := encodeService(resp)
		var cuts []int
		for k := 1; k < chunks; k++ {
			cuts = append(cuts, k*len(body)/chunks)
		}
		c.SendBody("MSG", reqID, body, cuts)
	}
	srv.OnRequest = func(c *rawSrvConn, reqID uint32, req ua.Request) {
		rr, ok := req.(*ua.ReadRequest)
		if !ok {
			return
		}
		marker := rr.MaxAge
		h := rr.RequestHeader.RequestHandle
		idx := int(marker) - 1
		if idx < 0 || idx >= len(r.Reqs) { // tail requests: answer at once
			answer(c, reqID, h, marker, 1)
			return
		}
		q := r.Reqs[idx]
		delay := time.Duration(q.DelayMs) * time.Millisecond
		switch q.Tie {
		case 2:
			delay -= time.Nanosecond
		case 3:
			delay += time.Nanosecond
		}
		// the network latency is part of the response time
		delay -= 2 * s.Net.DefLatency
		if delay < 0 {
			delay = 0
		}
		go func() {
			if delay > 0 {
				time.Sleep(delay)
			}
			s.Yield("rawsrv.answer")
			switch q.Action {
			case "drop":
			case "dup":
				answer(c, reqID, h, marker, q.Chunks)
				answer(c, reqID, h, marker, 1)
			case "fault":
				c.Respond(reqID, &ua.ServiceFault{ResponseHeader: rawRespHeader(h, ua.StatusBadNodeIDUnknown)})
			case "unsolicited-first":
				answer(c, reqID+100000, h, -marker, 1)
				answer(c, reqID, h, marker, q.Chunks)
			case "wrongtype":
				c.Respond(reqID, &ua.BrowseResponse{ResponseHeader: rawRespHeader(h, ua.StatusOK), Results: []*ua.BrowseResult{}, DiagnosticInfos: []*ua.DiagnosticInfo{}})
			default:
				answer(c, reqID, h, marker, q.Chunks)
			}
		}()
	}

	renewIdx := -1 // index of the renewal being answered (renewals are issued one at a time)
	srv.OnOpen = func(c *rawSrvConn, reqID uint32, req *ua.OpenSecureChannelRequest) bool {
		if req.RequestType != ua.SecurityTokenRequestTypeRenew || renewIdx < 0 || renewIdx >= len(r.Renews) {
			return true
		}
		q := r.Renews[renewIdx]
		delay := time.Duration(q.DelayMs) * time.Millisecond
		switch q.Tie {
		case 2:
			delay -= time.Nanosecond
		case 3:
			delay += time.Nanosecond
		}
		delay -= 2 * s.Net.DefLatency
		if delay < 0 {
			delay = 0
		}
		go func() {
			if delay > 0 {
				time.Sleep(delay)
			}
			s.Yield("rawsrv.answer-open")
			if q.Action != "drop" {
				c.AnswerOpen(reqID, req)
			}
		}()
		return false
	}

	ctx := context.Background()
	conn, err := uacp.Dial(ctx, srvURL)
	if err != nil {
		s.Fail("HARNESS", "setup", "dial", "%v", err)
		return
	}
	errch := make(chan error, 64)
	cfg := &uasc.Config{SecurityPolicyURI: ua.SecurityPolicyURINone, SecurityMode: ua.MessageSecurityModeNone, Lifetime: 3600000, RequestTimeout: 10 * time.Second, RequestIDSeed: r.Seed}
	if r.RenewTimeoutMs > 0 {
		cfg.RequestTimeout = time.Duration(r.RenewTimeoutMs) * time.Millisecond
	}
	sc, err := uasc.NewSecureChannel(srvURL, conn, cfg, errch)
	if err == nil {
		err = sc.Open(ctx)
	}
	if err != nil {
		s.Fail(prop, "open-failed", "open", "Open on a conforming server failed: %v", err)
		return
	}
	base := sc.VerifHandlerCount()

	call := func(marker float64, timeout time.Duration, cctx context.Context) outcome {
		var o outcome
		t0 := s.Now()
		req := &ua.ReadRequest{MaxAge: marker, NodesToRead: []*ua.ReadValueID{{NodeID: ua.NewNumericNodeID(0, 1), AttributeID: ua.AttributeIDValue, DataEncoding: &ua.QualifiedName{}}}}
		o.err = sc.SendRequestWithTimeout(cctx, req, nil, timeout, func(v ua.Response) error {
			o.gotType = fmt.Sprintf("%T", v)
			if rr, ok := v.(*ua.ReadResponse); ok && len(rr.Results) == 1 && rr.Results[0].Value != nil {
				if m, ok := rr.Results[0].Value.Value().(float64); ok {
					o.marker = m
					r.mu.Lock()
					r.delivered[m]++
					r.mu.Unlock()
				}
			}
			return nil
		})
		o.took = s.Now() - t0
		o.returned = true
		return o
	}

	outs := make([]outcome, len(r.Reqs))
	var wg sync.WaitGroup
	for i, q := range r.Reqs {
		wg.Add(1)
		go func(i int, q reqPlan) {
			defer wg.Done()
			time.Sleep(time.Duration(q.StartMs) * time.Millisecond)
			s.Yield("caller.start")
			cctx := ctx
			if q.CancelMs > 0 {
				var cancel context.CancelFunc
				cctx, cancel = context.WithTimeout(ctx, time.Duration(q.CancelMs)*time.Millisecond)
				defer cancel()
			}
			outs[i] = call(float64(i+1), time.Duration(q.TimeoutMs)*time.Millisecond, cctx)
		}(i, q)
	}
	done := make(chan struct{})
	go func() { wg.Wait(); close(done) }()
	select {
	case <-done:
	case <-time.After(30 * time.Second):
		var stuck []int
		for i := range outs {
			if !outs[i].returned {
				stuck = append(stuck, i)
			}
		}
		s.Fail("C19", "request-never-returns", "call-blocked", "requests %v did not return within 30 s (timeouts are <= 2.25 s)\n%s", stuck, clientStacks())
		return
	}
	ties := 0
	for i, q := range r.Reqs {
		o := outs[i]
		marker := float64(i + 1)
		limit := time.Duration(q.TimeoutMs)*time.Millisecond + 250*time.Millisecond
		if q.CancelMs > 0 && time.Duration(q.CancelMs)*time.Millisecond < limit {
			limit = time.Duration(q.CancelMs) * time.Millisecond
		}
		if o.took > limit {
			s.Fail("C19", "late-return", "returned-after-timeout-plus-leniency", "request %d (%+v) returned after %v, limit %v, err=%v", i, q, o.took, limit, o.err)
			return
		}
		if o.err == nil {
			if o.gotType != "*ua.ReadResponse" {
				// at this level the handler sees whatever type arrived; the typed client API is checked in C21
				if q.Action != "wrongtype" {
					s.Fail("C18", "wrong-response", "unexpected-type", "request %d got a %s", i, o.gotType)
					return
				}
				continue
			}
			if o.marker != marker {
				s.Fail("C18", "wrong-response", "foreign-response-delivered", "request %d (marker %v) was handed the response carrying marker %v; plan %+v", i, marker, o.marker, q)
				return
			}
			s.Probe("own-response")
		} else {
			switch {
			case q.Action == "fault":
				s.Probe("fault-surfaced")
			case o.err == ua.StatusBadTimeout:
				s.Probe("timeout")
			case o.err == context.DeadlineExceeded || o.err == context.Canceled:
				s.Probe("cancelled")
			case o.err == io.EOF:
				s.Fail(prop, "channel-died", "eof", "request %d failed with EOF: the channel died; plan %+v", i, q)
				return
			}
			// an expected answer that could have arrived in time must not be lost
			if q.Action == "answer" && q.Tie == 0 && q.CancelMs == 0 && q.DelayMs < q.TimeoutMs {
				s.Fail(prop, "response-lost", "timely-response-not-delivered", "request %d failed with %v although its response was sent after %d ms (timeout %d ms)", i, o.err, q.DelayMs, q.TimeoutMs)
				return
			}
		}
		if q.Tie != 0 {
			ties++
			if o.err == nil {
				s.Probe(fmt.Sprintf("tie%d-response-won", q.Tie))
			} else {
				s.Probe(fmt.Sprintf("tie%d-timeout-won", q.Tie))
			}
		}
	}
	r.mu.Lock()
	for m, n := range r.delivered {
		if n > 1 {
			r.mu.Unlock()
			s.Fail("C18", "duplicate-delivery", "response-handed-out-twice", "the response with marker %v was handed to %d callers", m, n)
			return
		}
		if m < 0 {
			r.mu.Unlock()
			s.Fail("C18", "wrong-response", "unsolicited-response-delivered", "an unsolicited response (marker %v) was delivered", m)
			return
		}
	}
	r.mu.Unlock()
	if ties > 0 || r.Mode == "c18" {
		s.Nontrivial()
	}
	// let late answers arrive, then the pending table must be back to where it was
	time.Sleep(3 * time.Second)
	if n := sc.VerifHandlerCount(); n != base {
		s.Fail("C19", "slot-leak", "pending-slot-not-released", "%d response handlers are still registered after every call returned (before: %d)", n, base)
		return
	}
	// token renewals whose response is early, late, exactly on time or never comes
	for i, q := range r.Renews {
		renewIdx = i
		cctx, cancel := ctx, context.CancelFunc(func() {})
		if q.CancelMs > 0 {
			cctx, cancel = context.WithTimeout(ctx, time.Duration(q.CancelMs)*time.Millisecond)
		}
		t0 := s.Now()
		ret := make(chan error, 1)
		go func() { ret <- sc.Renew(cctx) }()
		var rerr error
		select {
		case rerr = <-ret:
		case <-time.After(30 * time.Second):
			cancel()
			s.Fail("C19", "request-never-returns", "renew-blocked", "Renew %d (%+v) did not return within 30 s (request time-out %d ms)\n%s", i, q, r.RenewTimeoutMs, clientStacks())
			return
		}
		cancel()
		took := s.Now() - t0
		limit := time.Duration(q.TimeoutMs)*time.Millisecond + 250*time.Millisecond
		if q.CancelMs > 0 && time.Duration(q.CancelMs)*time.Millisecond < limit {
			limit = time.Duration(q.CancelMs) * time.Millisecond
		}
		if took > limit {
			s.Fail("C19", "late-return", "renew-returned-after-timeout-plus-leniency", "Renew %d (%+v) returned after %v, limit %v, err=%v", i, q, took, limit, rerr)
			return
		}
		switch {
		case rerr == nil:
			s.Probe("renew-ok")
		case q.Action == "answer" && q.Tie == 0 && q.CancelMs == 0 && q.DelayMs < q.TimeoutMs:
			s.Fail("C19", "response-lost", "timely-renew-response-not-delivered", "Renew %d failed with %v although its response was sent after %d ms (time-out %d ms)", i, rerr, q.DelayMs, q.TimeoutMs)
			return
		default:
			s.Probe("renew-timeout-or-cancel")
		}
		if q.Tie != 0 {
			s.Nontrivial()
			if rerr == nil {
				s.Probe(fmt.Sprintf("renew-tie%d-response-won", q.Tie))
			} else {
				s.Probe(fmt.Sprintf("renew-tie%d-timeout-won", q.Tie))
			}
		}
		// a late answer may still be on its way: let it arrive before the next step
		time.Sleep(time.Duration(sim.Pick(s.Plan, 0, 1, 800)) * time.Millisecond)
	}
	renewIdx = -1
	if len(r.Renews) > 0 {
		time.Sleep(2 * time.Second)
		if n := sc.VerifHandlerCount(); n != base {
			s.Fail("C19", "slot-leak", "pending-slot-not-released-after-renew", "%d response handlers are still registered after the renewals returned (before: %d)", n, base)
			return
		}
	}
	// the channel still works: a burst of concurrent requests, each of which must get its own answer ...
	{
		nb := len(r.Reqs)
		bouts := make([]outcome, nb)
		var bwg sync.WaitGroup
		for k := 0; k < nb; k++ {
			bwg.Add(1)
			go func(k int) {
				defer bwg.Done()
				s.Yield("caller.burst")
				bouts[k] = call(float64(2000+k), 2*time.Second, ctx)
			}(k)
		}
		bdone := make(chan struct{})
		go func() { bwg.Wait(); close(bdone) }()
		select {
		case <-bdone:
		case <-time.After(30 * time.Second):
			s.Fail("C19", "request-never-returns", "burst-call-blocked", "requests issued after the time-outs did not return within 30 s\n%s", clientStacks())
			return
		}
		for k, o := range bouts {
			if o.err == nil && o.marker != float64(2000+k) {
				s.Fail("C18", "wrong-response", "foreign-response-delivered-after-timeouts", "request with marker %v issued after the time-outs was handed the response carrying marker %v", float64(2000+k), o.marker)
				return
			}
			if o.err != nil {
				s.Fail("C19", "channel-wedged", "later-request-fails", "request issued after the time-outs failed: err=%v (marker %v)\n%s", o.err, float64(2000+k), clientStacks())
				return
			}
		}
	}
	// ... and a few one after the other
	for k := 0; k < r.Tail; k++ {
		o := call(float64(1000+k), 2*time.Second, ctx)
		if o.err == nil && o.marker != float64(1000+k) {
			s.Fail("C18", "wrong-response", "foreign-response-delivered-after-timeouts", "request with marker %v issued after the time-outs was handed the response carrying marker %v", float64(1000+k), o.marker)
			return
		}
		if o.err != nil || o.marker != float64(1000+k) {
			s.Fail("C19", "channel-wedged", "later-request-fails", "request issued after the time-outs failed: err=%v marker=%v (want %v)\n%s", o.err, o.marker, float64(1000+k), clientStacks())
			return
		}
	}
	s.Probe("channel-alive")
	select {
	case e := <-errch:
		s.Probe("errch-" + fmt.Sprintf("%T", e))
	default:
	}
	s.Teardown()
	sc.Close()
	conn.Close()
}

func (r *chanRun) Finish(s *sim.Sim) {}

type c18Run struct{ chanRun }
type c19Run struct{ chanRun }

func (r *c18Run) Setup(s *sim.Sim) { r.setup(s, "c18") }
func (r *c19Run) Setup(s *sim.Sim) { r.setup(s, "c19") }

func init() {
	Register(&Scenario{Name: "c18", Props: []string{"C18", "C19"}, Horizon: 5 * time.Minute, MaxSteps: 600000, New: func() Run { return &c18Run{} }, StuckProperty: "C19"})
	Register(&Scenario{Name: "c19", Props: []string{"C19", "C18"}, Horizon: 5 * time.Minute, MaxSteps: 600000, New: func() Run { return &c19Run{} }, StuckProperty: "C19"})
}
