//go:build verif

package scen

import (
	"context"
	"fmt"
	"time"

	"github.com/gopcua/opcua"
	"github.com/gopcua/opcua/id"
	"github.com/gopcua/opcua/monitor"
	"github.com/gopcua/opcua/ua"

	"verif/sim"
)

// C21: client calls never panic on any well-formed server response.
//
// A real opcua.Client (and monitor.NodeMonitor) talks to the scripted server,
// which answers every request with a decodable response of a drawn shape:
// empty / shorter / longer result arrays, bad status codes, values of other
// types or no value at all, another response type, a ServiceFault. The oracle
// is the process: a panic in any client goroutine kills the worker.

type c21Run struct {
	Ops      []string `json:"ops"`
	Variants []int    `json:"variants"` // consumed one per server answer
	Connect  int      `json:"connect_variant"`
	vi       int
}

func (r *c21Run) Sample() any { return r }

var c21Ops = []string{"read", "write", "browse", "value", "nodeclass", "browsename", "description", "displayname", "accesslevel", "useraccesslevel",
	"attributes", "children", "references", "translate", "subscribe", "monitor", "unmonitor", "cancel", "setmode", "modifysub", "settriggering", "stats",
	"call", "findservers", "getendpoints", "registernodes", "unregisternodes", "historyread", "namespacearray", "findnamespace", "updatenamespaces",
	"monitor-add", "monitor-remove", "publish-wait",
	// an application that keeps using a Subscription object after Cancel / Unsubscribe
	"reuse-monitor", "reuse-unmonitor", "reuse-cancel", "reuse-setmode", "reuse-stats", "monitor-unsubscribe"}

func (r *c21Run) Setup(s *sim.Sim) {
	p := s.Plan
	s.DrawPolicy()
	n := 4 + p.Intn(12)
	for i := 0; i < n; i++ {
		r.Ops = append(r.Ops, c21Ops[p.Intn(len(c21Ops))])
	}
	for i := 0; i < 200; i++ {
		v := p.Intn(12)
		if p.Chance(1, 3) {
			v = 0 // normal answer
		}
		r.Variants = append(r.Variants, v)
	}
	r.Connect = 0
	if p.Chance(1, 5) {
		r.Connect = 1 + p.Intn(6)
	}
}

func (r *c21Run) next() int {
	v := r.Variants[r.vi%len(r.Variants)]
	r.vi++
	return v
}

func c21Value(v int) *ua.DataValue {
	switch v % 9 {
	case 0:
		return &ua.DataValue{EncodingMask: ua.DataValueValue, Value: ua.MustVariant(int32(7))}
	case 1:
		return &ua.DataValue{} // Good status, no value at all
	case 2:
		return &ua.DataValue{EncodingMask: ua.DataValueStatusCode, Status: ua.StatusBadNodeIDUnknown}
	case 3:
		return &ua.DataValue{EncodingMask: ua.DataValueValue, Value: ua.MustVariant("text")}
	case 4:
		return &ua.DataValue{EncodingMask: ua.DataValueValue, Value: ua.MustVariant([]string{"a", "b"})}
	case 5:
		return &ua.DataValue{EncodingMask: ua.DataValueValue, Value: ua.MustVariant(&ua.QualifiedName{Name: "q"})}
	case 6:
		return &ua.DataValue{EncodingMask: ua.DataValueValue, Value: ua.MustVariant(&ua.LocalizedText{EncodingMask: ua.LocalizedTextText, Text: "t"})}
	case 7:
		return &ua.DataValue{EncodingMask: ua.DataValueValue, Value: ua.MustVariant(uint8(3))}
	default:
		return &ua.DataValue{EncodingMask: ua.DataValueValue | ua.DataValueStatusCode, Status: ua.StatusUncertain, Value: ua.MustVariant(float64(1.5))}
	}
}

func c21NodeIDs(n int) []*ua.NodeID {
	out := make([]*ua.NodeID, n)
	for i := range out {
		out[i] = ua.NewNumericNodeID(1, uint32(i))
	}
	return out
}

// count returns a result array length for n requested items.
func c21Count(v, n int) int {
	switch v % 4 {
	case 1:
		return 0
	case 2:
		if n > 0 {
			return n - 1
		}
		return 0
	case 3:
		return n + 1
	}
	return n
}

func (r *c21Run) answer(c *rawSrvConn, reqID uint32, req ua.Request) {
	h := req.Header().RequestHandle
	v := r.next()
	hdr := rawRespHeader(h, ua.StatusOK)
	switch v {
	case 10: // a ServiceFault
		c.Respond(reqID, &ua.ServiceFault{ResponseHeader: rawRespHeader(h, ua.StatusBadServiceUnsupported)})
		return
	case 11: // another response type
		if _, ok := req.(*ua.ReadRequest); ok {
			c.Respond(reqID, &ua.BrowseResponse{ResponseHeader: hdr, Results: []*ua.BrowseResult{}, DiagnosticInfos: []*ua.DiagnosticInfo{}})
		} else {
			c.Respond(reqID, &ua.ReadResponse{ResponseHeader: hdr, Results: []*ua.DataValue{c21Value(0)}})
		}
		return
	case 9: // Good-looking answer with an uncertain/bad service result
		hdr = rawRespHeader(h, ua.StatusBadInternalError)
	}
	switch q := req.(type) {
	case *ua.ReadRequest:
		n := c21Count(v, len(q.NodesToRead))
		res := make([]*ua.DataValue, n)
		for i := range res {
			res[i] = c21Value(v + i)
		}
		c.Respond(reqID, &ua.ReadResponse{ResponseHeader: hdr, Results: res})
	case *ua.WriteRequest:
		n := c21Count(v, len(q.NodesToWrite))
		c.Respond(reqID, &ua.WriteResponse{ResponseHeader: hdr, Results: make([]ua.StatusCode, n), DiagnosticInfos: []*ua.DiagnosticInfo{}})
	case *ua.BrowseRequest:
		n := c21Count(v, len(q.NodesToBrowse))
		res := make([]*ua.BrowseResult, n)
		for i := range res {
			res[i] = &ua.BrowseResult{StatusCode: ua.StatusOK, References: []*ua.ReferenceDescription{{
				ReferenceTypeID: ua.NewNumericNodeID(0, id.Organizes), IsForward: true, NodeID: ua.NewExpandedNodeID(ua.NewNumericNodeID(1, 5), "", 0),
				BrowseName: &ua.QualifiedName{Name: "x"}, DisplayName: &ua.LocalizedText{}, TypeDefinition: ua.NewExpandedNodeID(ua.NewNumericNodeID(0, 0), "", 0)}}}
			if v%3 == 1 {
				res[i].ContinuationPoint = []byte{1, 2, 3}
			}
			if v%5 == 4 {
				res[i].References = nil
			}
		}
		c.Respond(reqID, &ua.BrowseResponse{ResponseHeader: hdr, Results: res, DiagnosticInfos: []*ua.DiagnosticInfo{}})
	case *ua.BrowseNextRequest:
		n := c21Count(v, len(q.ContinuationPoints))
		res := make([]*ua.BrowseResult, n)
		for i := range res {
			res[i] = &ua.BrowseResult{StatusCode: ua.StatusOK}
			if v == 5 && r.vi%7 != 0 {
				res[i].ContinuationPoint = []byte{9}
			}
		}
		c.Respond(reqID, &ua.BrowseNextResponse{ResponseHeader: hdr, Results: res, DiagnosticInfos: []*ua.DiagnosticInfo{}})
	case *ua.TranslateBrowsePathsToNodeIDsRequest:
		n := c21Count(v, len(q.BrowsePaths))
		res := make([]*ua.BrowsePathResult, n)
		for i := range res {
			res[i] = &ua.BrowsePathResult{StatusCode: ua.StatusOK}
			if v%3 != 0 {
				res[i].Targets = []*ua.BrowsePathTarget{{TargetID: ua.NewExpandedNodeID(ua.NewNumericNodeID(1, 9), "", 0)}}
			}
		}
		c.Respond(reqID, &ua.TranslateBrowsePathsToNodeIDsResponse{ResponseHeader: hdr, Results: res, DiagnosticInfos: []*ua.DiagnosticInfo{}})
	case *ua.CreateSubscriptionRequest:
		subID := uint32(1 + r.vi%3)
		if v%4 == 1 {
			subID = 0
		}
		c.Respond(reqID, &ua.CreateSubscriptionResponse{ResponseHeader: hdr, SubscriptionID: subID, RevisedPublishingInterval: []float64{100, 0, -5, 1e300}[v%4], RevisedLifetimeCount: uint32(v * 1000), RevisedMaxKeepAliveCount: uint32(v)})
	case *ua.ModifySubscriptionRequest:
		c.Respond(reqID, &ua.ModifySubscriptionResponse{ResponseHeader: hdr, RevisedPublishingInterval: float64(v) * 10})
	case *ua.DeleteSubscriptionsRequest:
		n := c21Count(v, len(q.SubscriptionIDs))
		res := make([]ua.StatusCode, n)
		if v%2 == 1 && n > 0 {
			res[0] = ua.StatusBadSubscriptionIDInvalid
		}
		c.Respond(reqID, &ua.DeleteSubscriptionsResponse{ResponseHeader: hdr, Results: res, DiagnosticInfos: []*ua.DiagnosticInfo{}})
	case *ua.CreateMonitoredItemsRequest:
		n := c21Count(v, len(q.ItemsToCreate))
		res := make([]*ua.MonitoredItemCreateResult, n)
		for i := range res {
			res[i] = &ua.MonitoredItemCreateResult{StatusCode: []ua.StatusCode{ua.StatusOK, ua.StatusBadNodeIDUnknown}[(v+i)%2], MonitoredItemID: uint32(10 + i), FilterResult: ua.NewExtensionObject(nil)}
		}
		c.Respond(reqID, &ua.CreateMonitoredItemsResponse{ResponseHeader: hdr, Results: res, DiagnosticInfos: []*ua.DiagnosticInfo{}})
	case *ua.DeleteMonitoredItemsRequest:
		n := c21Count(v, len(q.MonitoredItemIDs))
		c.Respond(reqID, &ua.DeleteMonitoredItemsResponse{ResponseHeader: hdr, Results: make([]ua.StatusCode, n), DiagnosticInfos: []*ua.DiagnosticInfo{}})
	case *ua.ModifyMonitoredItemsRequest:
		n := c21Count(v, len(q.ItemsToModify))
		res := make([]*ua.MonitoredItemModifyResult, n)
		for i := range res {
			res[i] = &ua.MonitoredItemModifyResult{FilterResult: ua.NewExtensionObject(nil)}
		}
		c.Respond(reqID, &ua.ModifyMonitoredItemsResponse{ResponseHeader: hdr, Results: res, DiagnosticInfos: []*ua.DiagnosticInfo{}})
	case *ua.SetMonitoringModeRequest:
		n := c21Count(v, len(q.MonitoredItemIDs))
		c.Respond(reqID, &ua.SetMonitoringModeResponse{ResponseHeader: hdr, Results: make([]ua.StatusCode, n), DiagnosticInfos: []*ua.DiagnosticInfo{}})
	case *ua.SetTriggeringRequest:
		c.Respond(reqID, &ua.SetTriggeringResponse{ResponseHeader: hdr})
	case *ua.CallRequest:
		n := c21Count(v, len(q.MethodsToCall))
		res := make([]*ua.CallMethodResult, n)
		for i := range res {
			res[i] = &ua.CallMethodResult{StatusCode: ua.StatusOK}
		}
		c.Respond(reqID, &ua.CallResponse{ResponseHeader: hdr, Results: res, DiagnosticInfos: []*ua.DiagnosticInfo{}})
	case *ua.FindServersRequest:
		c.Respond(reqID, &ua.FindServersResponse{ResponseHeader: hdr, Servers: make([]*ua.ApplicationDescription, 0)})
	case *ua.GetEndpointsRequest:
		var eps []*ua.EndpointDescription
		if v%2 == 0 {
			eps = append(eps, &ua.EndpointDescription{EndpointURL: srvURL, Server: &ua.ApplicationDescription{ApplicationName: &ua.LocalizedText{}}})
		}
		c.Respond(reqID, &ua.GetEndpointsResponse{ResponseHeader: hdr, Endpoints: eps})
	case *ua.RegisterNodesRequest:
		c.Respond(reqID, &ua.RegisterNodesResponse{ResponseHeader: hdr, RegisteredNodeIDs: c21NodeIDs(c21Count(v, len(q.NodesToRegister)))})
	case *ua.UnregisterNodesRequest:
		c.Respond(reqID, &ua.UnregisterNodesResponse{ResponseHeader: hdr})
	case *ua.HistoryReadRequest:
		n := c21Count(v, len(q.NodesToRead))
		res := make([]*ua.HistoryReadResult, n)
		for i := range res {
			res[i] = &ua.HistoryReadResult{HistoryData: ua.NewExtensionObject(nil)}
		}
		c.Respond(reqID, &ua.HistoryReadResponse{ResponseHeader: hdr, Results: res, DiagnosticInfos: []*ua.DiagnosticInfo{}})
	case *ua.PublishRequest:
		r.publish(c, reqID, h, v, len(q.SubscriptionAcknowledgements))
	default:
		c.Respond(reqID, &ua.ServiceFault{ResponseHeader: rawRespHeader(h, ua.StatusBadServiceUnsupported)})
	}
}

func (r *c21Run) publish(c *rawSrvConn, reqID, h uint32, v, acks int) {
	// publish answers are paced; some are held long enough for several API calls
	// (cancel, forget, monitor) to complete while the request is outstanding
	time.Sleep(time.Duration([]int{20, 20, 1, 150, 20, 400}[r.vi%6]) * time.Millisecond)
	hdr := rawRespHeader(h, ua.StatusOK)
	nm := &ua.NotificationMessage{SequenceNumber: uint32(r.vi), PublishTime: time.Now()}
	dcn := &ua.DataChangeNotification{DiagnosticInfos: []*ua.DiagnosticInfo{}}
	for i := 0; i < v%3; i++ {
		dcn.MonitoredItems = append(dcn.MonitoredItems, &ua.MonitoredItemNotification{ClientHandle: uint32(100 + i + v), Value: c21Value(v + i)})
	}
	switch v % 8 {
	case 0, 1:
		eo := ua.NewExtensionObject(dcn)
		eo.UpdateMask()
		nm.NotificationData = []*ua.ExtensionObject{eo}
	case 2: // keep-alive
		nm.NotificationData = []*ua.ExtensionObject{}
	case 3: // status change
		eo := ua.NewExtensionObject(&ua.StatusChangeNotification{Status: ua.StatusBadTimeout, DiagnosticInfo: &ua.DiagnosticInfo{}})
		eo.UpdateMask()
		nm.NotificationData = []*ua.ExtensionObject{eo}
	case 4: // an extension object without body
		nm.NotificationData = []*ua.ExtensionObject{ua.NewExtensionObject(nil)}
	case 5: // event list
		eo := ua.NewExtensionObject(&ua.EventNotificationList{Events: []*ua.EventFieldList{{ClientHandle: 100, EventFields: []*ua.Variant{ua.MustVariant(int32(1))}}}})
		eo.UpdateMask()
		nm.NotificationData = []*ua.ExtensionObject{eo}
	case 6: // two notifications, one of an unrelated type
		eo := ua.NewExtensionObject(dcn)
		eo.UpdateMask()
		eo2 := ua.NewExtensionObject(&ua.ReadValueID{NodeID: ua.NewNumericNodeID(0, 1), DataEncoding: &ua.QualifiedName{}})
		eo2.UpdateMask()
		nm.NotificationData = []*ua.ExtensionObject{eo, eo2}
	default:
		nm.NotificationData = nil
	}
	res := make([]ua.StatusCode, c21Count(v, acks))
	for i := range res {
		// (independent of the count variant: with v alone the first result of a
		// response with the right number of results was always Good)
		res[i] = []ua.StatusCode{ua.StatusOK, ua.StatusBadSequenceNumberUnknown, ua.StatusBadSubscriptionIDInvalid, ua.StatusBadInternalError}[(v/4+r.vi+i)%4]
	}
	// mostly ids the scripted CreateSubscription hands out (1..3), so that notifications
	// belong to subscriptions the client knows and are acknowledged later
	sub := uint32(1 + v%4)
	if r.vi%3 != 0 {
		sub = uint32(1 + r.vi%3)
	}
	if v == 7 {
		sub = 0
	}
	if v == 9 {
		hdr = rawRespHeader(h, []ua.StatusCode{ua.StatusBadNoSubscription, ua.StatusBadTooManyPublishRequests, ua.StatusBadSessionIDInvalid, ua.StatusBadSequenceNumberUnknown}[r.vi%4])
	}
	c.Respond(reqID, &ua.PublishResponse{ResponseHeader: hdr, SubscriptionID: sub, AvailableSequenceNumbers: []uint32{}, MoreNotifications: v%2 == 0, NotificationMessage: nm, Results: res, DiagnosticInfos: []*ua.DiagnosticInfo{}})
}

func (r *c21Run) Main(s *sim.Sim) {
	srv, err := newRawServer(s, srvAddr)
	if err != nil {
		s.Fail("HARNESS", "setup", "rawsrv", "%v", err)
		return
	}
	defer srv.Close()
	plain := sessionHandler(r.answer)
	srv.OnRequest = func(c *rawSrvConn, reqID uint32, req ua.Request) {
		h := req.Header().RequestHandle
		switch q := req.(type) {
		case *ua.CreateSessionRequest:
			switch r.Connect {
			case 1: // no endpoints, no signature data, no nonce
				c.Respond(reqID, &ua.CreateSessionResponse{ResponseHeader: rawRespHeader(h, ua.StatusOK), SessionID: ua.NewNumericNodeID(0, 0), AuthenticationToken: ua.NewNumericNodeID(0, 0), ServerSignature: &ua.SignatureData{}})
				return
			case 2:
				c.Respond(reqID, &ua.ServiceFault{ResponseHeader: rawRespHeader(h, ua.StatusBadTooManySessions)})
				return
			case 3: // endpoints without user token policies
				c.Respond(reqID, &ua.CreateSessionResponse{ResponseHeader: rawRespHeader(h, ua.StatusOK), SessionID: ua.NewNumericNodeID(1, 1), AuthenticationToken: ua.NewNumericNodeID(0, 9), ServerSignature: &ua.SignatureData{},
					ServerEndpoints: []*ua.EndpointDescription{{EndpointURL: "", Server: &ua.ApplicationDescription{ApplicationName: &ua.LocalizedText{}}}}})
				return
			}
		case *ua.ActivateSessionRequest:
			if r.Connect == 4 {
				c.Respond(reqID, &ua.ActivateSessionResponse{ResponseHeader: rawRespHeader(h, ua.StatusBadIdentityTokenRejected)})
				return
			}
		case *ua.ReadRequest:
			if len(q.NodesToRead) == 1 && q.NodesToRead[0].NodeID.IntID() == id.Server_NamespaceArray {
				switch r.Connect {
				case 5:
					c.Respond(reqID, &ua.ReadResponse{ResponseHeader: rawRespHeader(h, ua.StatusOK), Results: []*ua.DataValue{}})
					return
				case 6:
					c.Respond(reqID, &ua.ReadResponse{ResponseHeader: rawRespHeader(h, ua.StatusOK), Results: []*ua.DataValue{c21Value(1 + r.vi%8)}})
					return
				}
				if r.vi > 0 && r.next() > 6 { // later namespace reads get odd answers too
					c.Respond(reqID, &ua.ReadResponse{ResponseHeader: rawRespHeader(h, ua.StatusOK), Results: []*ua.DataValue{c21Value(r.vi)}})
					return
				}
			}
		}
		plain(c, reqID, req)
	}
	ctx := context.Background()
	cl, err := newClient(opcua.AutoReconnect(false), opcua.RequestTimeout(2*time.Second))
	if err != nil {
		s.Fail("HARNESS", "setup", "client", "%v", err)
		return
	}
	cctx, cancel := context.WithTimeout(ctx, 10*time.Second)
	err = cl.Connect(cctx)
	cancel()
	if err != nil {
		s.Probe("connect-error")
		if r.Connect == 0 {
			s.Fail("HARNESS", "setup", "connect", "connect to scripted server failed: %v", err)
		}
		return
	}
	s.Probe("connected")
	notifs := make(chan *opcua.PublishNotificationData, 256)
	go func() {
		for range notifs {
		}
	}()
	var sub, cancelled *opcua.Subscription
	var msub *monitor.Subscription
	unsubscribed := false
	nm, _ := monitor.NewNodeMonitor(cl)
	nm.SetErrorHandler(func(*opcua.Client, *monitor.Subscription, error) {})
	node := cl.Node(ua.NewNumericNodeID(1, 5))
	for _, op := range r.Ops {
		octx, cancel := context.WithTimeout(ctx, 3*time.Second)
		s.Probe("op-" + op)
		var err error
		switch op {
		case "read":
			_, err = cl.Read(octx, &ua.ReadRequest{NodesToRead: []*ua.ReadValueID{{NodeID: node.ID}, {NodeID: ua.NewNumericNodeID(1, 6)}}})
		case "write":
			_, err = cl.Write(octx, writeReq(node.ID, int32(1)))
		case "browse":
			_, err = cl.Browse(octx, &ua.BrowseRequest{NodesToBrowse: []*ua.BrowseDescription{{NodeID: node.ID}}})
		case "value":
			_, err = node.Value(octx)
		case "nodeclass":
			_, err = node.NodeClass(octx)
		case "browsename":
			_, err = node.BrowseName(octx)
		case "description":
			_, err = node.Description(octx)
		case "displayname":
			_, err = node.DisplayName(octx)
		case "accesslevel":
			_, err = node.HasAccessLevel(octx, ua.AccessLevelTypeCurrentRead)
		case "useraccesslevel":
			_, err = node.HasUserAccessLevel(octx, ua.AccessLevelTypeCurrentRead)
		case "attributes":
			_, err = node.Attributes(octx, ua.AttributeIDValue, ua.AttributeIDBrowseName)
		case "children":
			_, err = node.Children(octx, 0, 0)
		case "references":
			_, err = node.References(octx, 0, ua.BrowseDirectionBoth, 0, true)
		case "translate":
			_, err = node.TranslateBrowsePathInNamespaceToNodeID(octx, 1, "a.b")
		case "subscribe":
			var sb *opcua.Subscription
			sb, err = cl.Subscribe(octx, &opcua.SubscriptionParameters{Interval: 50 * time.Millisecond}, notifs)
			if err == nil {
				sub = sb
			}
		case "monitor":
			if sub != nil {
				_, err = sub.Monitor(octx, ua.TimestampsToReturnBoth, opcua.NewMonitoredItemCreateRequestWithDefaults(node.ID, ua.AttributeIDValue, 100), opcua.NewMonitoredItemCreateRequestWithDefaults(node.ID, ua.AttributeIDValue, 101))
			}
		case "unmonitor":
			if sub != nil {
				_, err = sub.Unmonitor(octx, 10, 11)
			}
		case "cancel":
			if sub != nil {
				err = sub.Cancel(octx)
				cancelled, sub = sub, nil
			}
		case "reuse-monitor":
			if cancelled != nil {
				_, err = cancelled.Monitor(octx, ua.TimestampsToReturnBoth, opcua.NewMonitoredItemCreateRequestWithDefaults(node.ID, ua.AttributeIDValue, 200))
			}
		case "reuse-unmonitor":
			if cancelled != nil {
				_, err = cancelled.Unmonitor(octx, 10)
			}
		case "reuse-cancel":
			if cancelled != nil {
				err = cancelled.Cancel(octx)
			}
		case "reuse-setmode":
			if cancelled != nil {
				_, err = cancelled.SetMonitoringMode(octx, ua.MonitoringModeReporting, 10)
			}
		case "reuse-stats":
			if cancelled != nil {
				_, err = cancelled.Stats(octx)
			}
		case "monitor-unsubscribe":
			// (a second Unsubscribe panics by design - "TODO: make idempotent" - whatever the
			// server answers, so that is not a response-driven panic and is not generated)
			if msub != nil && !unsubscribed {
				unsubscribed = true
				err = msub.Unsubscribe(octx) // msub stays: a later monitor-add calls AddNodes on it
			}
		case "setmode":
			if sub != nil {
				_, err = sub.SetMonitoringMode(octx, ua.MonitoringModeSampling, 10)
			}
		case "modifysub":
			if sub != nil {
				_, err = sub.ModifySubscription(octx, opcua.SubscriptionParameters{Interval: 20 * time.Millisecond})
			}
		case "settriggering":
			if sub != nil {
				_, err = sub.SetTriggering(octx, 10, []uint32{11}, nil)
			}
		case "stats":
			if sub != nil {
				_, err = sub.Stats(octx)
			}
		case "call":
			_, err = cl.Call(octx, &ua.CallMethodRequest{ObjectID: node.ID, MethodID: node.ID})
		case "findservers":
			_, err = cl.FindServers(octx)
		case "getendpoints":
			_, err = cl.GetEndpoints(octx)
		case "registernodes":
			_, err = cl.RegisterNodes(octx, &ua.RegisterNodesRequest{NodesToRegister: []*ua.NodeID{node.ID}})
		case "unregisternodes":
			_, err = cl.UnregisterNodes(octx, &ua.UnregisterNodesRequest{NodesToUnregister: []*ua.NodeID{node.ID}})
		case "historyread":
			_, err = cl.HistoryReadRawModified(octx, []*ua.HistoryReadValueID{{NodeID: node.ID, DataEncoding: &ua.QualifiedName{}}}, &ua.ReadRawModifiedDetails{})
		case "namespacearray":
			_, err = cl.NamespaceArray(octx)
		case "findnamespace":
			_, err = cl.FindNamespace(octx, "urn:x")
		case "updatenamespaces":
			err = cl.UpdateNamespaces(octx)
		case "monitor-add":
			if msub == nil {
				msub, err = nm.Subscribe(octx, &opcua.SubscriptionParameters{Interval: 50 * time.Millisecond}, func(*monitor.Subscription, *monitor.DataChangeMessage) {}, "ns=1;i=5")
			} else {
				err = msub.AddNodes(octx, "ns=1;i=6", "ns=1;i=7")
			}
		case "monitor-remove":
			if msub != nil {
				err = msub.RemoveNodes(octx, "ns=1;i=5")
			}
		case "publish-wait":
			time.Sleep(300 * time.Millisecond)
		}
		cancel()
		if err != nil {
			s.Probe("op-error")
		} else {
			s.Probe("op-ok")
		}
	}
	time.Sleep(500 * time.Millisecond)
	s.Nontrivial()
	s.Teardown()
	sctx, cancel2 := context.WithTimeout(ctx, 5*time.Second)
	cl.Close(sctx)
	cancel2()
	_ = fmt.Sprint
}

func (r *c21Run) Finish(s *sim.Sim) {}

func init() {
	Register(&Scenario{Name: "c21", Props: []string{"C21"}, Horizon: 5 * time.Minute, MaxSteps: 600000, New: func() Run { return &c21Run{} }})
}
