//go:build verif

package scen

import (
	"context"
	"strings"
	"time"

	"github.com/gopcua/opcua"
	"github.com/gopcua/opcua/ua"

	"verif/refcodec"
	"verif/sim"
)

// C22: a session is established only after the server proved its identity.
//
// A real opcua.Client connects over a really secured channel to the reference
// server, whose CreateSession response carries a valid or an invalid server
// signature over (client certificate | client nonce).

type c22Run struct {
	Cfg     secCfg `json:"cfg"`
	Variant string `json:"signature"` // valid | flipped | empty | other-key | other-data | truncated | nil-cert
	Flip    int    `json:"flip"`
}

func (r *c22Run) Sample() any { return r }

func (r *c22Run) Setup(s *sim.Sim) {
	p := s.Plan
	s.DrawPolicy()
	loadKeys()
	for {
		r.Cfg = drawSecCfg(p, true)
		if r.Cfg.ClientBits <= 2048 && r.Cfg.ServerBits <= 2048 || p.Intn(5) == 0 {
			break
		}
	}
	r.Variant = sim.Pick(p, "valid", "valid", "flipped", "empty", "other-key", "other-data", "truncated", "swapped-order", "chain-foreign-leaf", "foreign-cert-only")
	r.Flip = p.Intn(1 << 16)
}

func (r *c22Run) Main(s *sim.Sim) {
	srv, err := newRawServer(s, srvAddr)
	if err != nil {
		s.Fail("HARNESS", "setup", "rawsrv", "%v", err)
		return
	}
	defer srv.Close()
	sec := r.Cfg
	srv.Sec = &sec
	pol := refcodec.Policies[r.Cfg.Policy]
	ck, sk := key("client", r.Cfg.ClientBits), key("server", r.Cfg.ServerBits)
	sessionCreated := false
	activated := false
	srv.OnRequest = sessionHandler(func(c *rawSrvConn, reqID uint32, req ua.Request) {
		if rr, ok := req.(*ua.ReadRequest); ok {
			c.Respond(reqID, &ua.ReadResponse{ResponseHeader: rawRespHeader(rr.RequestHeader.RequestHandle, ua.StatusOK), Results: []*ua.DataValue{{EncodingMask: ua.DataValueValue, Value: ua.MustVariant(int32(1))}}})
		}
	})
	base := srv.OnRequest
	srv.OnRequest = func(c *rawSrvConn, reqID uint32, req ua.Request) {
		switch q := req.(type) {
		case *ua.CreateSessionRequest:
			sessionCreated = true
			data := append(append([]byte(nil), q.ClientCertificate...), q.ClientNonce...)
			signKey := sk.Key
			switch r.Variant {
			case "other-key":
				signKey = key("server", map[int]int{1024: 2048, 2048: 1024, 3072: 2048, 4096: 2048}[r.Cfg.ServerBits]).Key
				if r.Cfg.Policy != "Basic128Rsa15" && r.Cfg.Policy != "Basic256" {
					signKey = key("client", 2048).Key
				}
			case "other-data":
				data = append([]byte("x"), data...)
			case "swapped-order":
				data = append(append([]byte(nil), q.ClientNonce...), q.ClientCertificate...)
			}
			respCert := sk.Cert
			switch r.Variant {
			case "chain-foreign-leaf", "foreign-cert-only":
				// the response carries (also) a certificate that is not the one the secure channel was
				// opened with, and the signature is made with that certificate's key
				other := key("client", 2048)
				if r.Cfg.ClientBits == 2048 {
					other = key("server", map[int]int{1024: 2048, 2048: 1024, 3072: 2048, 4096: 2048}[r.Cfg.ServerBits])
					if r.Cfg.Policy != "Basic128Rsa15" && r.Cfg.Policy != "Basic256" && other.Bits < 2048 {
						other = key("server", 4096)
					}
				}
				signKey = other.Key
				if r.Variant == "chain-foreign-leaf" {
					respCert = append(append([]byte(nil), sk.Cert...), other.Cert...)
				} else {
					respCert = other.Cert
				}
			}
			sig, err := pol.SignAsym(signKey, data)
			if err != nil {
				s.Fail("HARNESS", "setup", "sign", "%v", err)
				return
			}
			switch r.Variant {
			case "flipped":
				sig[r.Flip%len(sig)] ^= byte(1 + r.Flip%255)
			case "empty":
				sig = []byte{}
			case "truncated":
				sig = sig[:len(sig)/2]
			}
			c.Respond(reqID, &ua.CreateSessionResponse{
				ResponseHeader: rawRespHeader(q.RequestHeader.RequestHandle, ua.StatusOK), SessionID: ua.NewNumericNodeID(1, 77), AuthenticationToken: ua.NewNumericNodeID(0, 4711),
				RevisedSessionTimeout: 60000, ServerNonce: make([]byte, 32), ServerCertificate: respCert,
				ServerSignature: &ua.SignatureData{Algorithm: pol.AsymSignatureURI(), Signature: sig},
				ServerEndpoints: []*ua.EndpointDescription{{EndpointURL: srvURL, SecurityMode: r.Cfg.mode(), SecurityPolicyURI: r.Cfg.uri(), ServerCertificate: sk.Cert,
					Server:             &ua.ApplicationDescription{ApplicationName: &ua.LocalizedText{}},
					UserIdentityTokens: []*ua.UserTokenPolicy{{PolicyID: "anon", TokenType: ua.UserTokenTypeAnonymous}}}},
			})
			return
		case *ua.ActivateSessionRequest:
			activated = true
		}
		base(c, reqID, req)
	}
	cl, err := opcua.NewClient(srvURL,
		opcua.SecurityPolicy(r.Cfg.uri()), opcua.SecurityMode(r.Cfg.mode()),
		opcua.Certificate(ck.Cert), opcua.PrivateKey(ck.Key), opcua.RemoteCertificate(sk.Cert),
		opcua.AutoReconnect(false), opcua.RequestTimeout(5*time.Second), opcua.AuthAnonymous())
	if err != nil {
		s.Fail("HARNESS", "setup", "client", "%v", err)
		return
	}
	ctx, cancel := context.WithTimeout(context.Background(), 30*time.Second)
	defer cancel()
	err = cl.Connect(ctx)
	s.Nontrivial()
	if !sessionCreated {
		s.Fail("HARNESS", "setup", "no-create-session", "Connect returned %v before a CreateSession request was seen", err)
		return
	}
	if r.Variant == "valid" {
		if err != nil {
			s.Fail("C22", "valid-signature-rejected", strings.SplitN(r.Cfg.Policy, "_", 2)[0], "Connect failed although the server signature is valid (%s/%d keys %d/%d): %v", r.Cfg.Policy, r.Cfg.Mode, r.Cfg.ClientBits, r.Cfg.ServerBits, err)
			return
		}
		s.Probe("valid-accepted")
	} else {
		if err == nil || cl.State() == opcua.Connected || activated {
			s.Fail("C22", "bad-signature-accepted", r.Variant, "the server signature was %s but Connect returned %v, state %v, ActivateSession sent: %v (%s/%d)", r.Variant, err, cl.State(), activated, r.Cfg.Policy, r.Cfg.Mode)
			return
		}
		s.Probe("invalid-rejected-" + r.Variant)
	}
	s.Teardown()
	cl.Close(context.Background())
}

func (r *c22Run) Finish(s *sim.Sim) {}

func init() {
	Register(&Scenario{Name: "c22", Props: []string{"C22"}, Horizon: 10 * time.Minute, MaxSteps: 800000, New: func() Run { return &c22Run{} }, StuckProperty: "C22"})
}
