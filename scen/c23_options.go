//go:build verif

package scen

import (
	"context"
	"fmt"
	"reflect"
	"time"

	"github.com/gopcua/opcua"
	"github.com/gopcua/opcua/ua"
	"github.com/gopcua/opcua/uacp"

	"verif/sim"
)

// C23: client options affect only the client they are applied to.
//
// A "program" is a sequence of client constructions with and without options,
// followed by connects in a drawn order; what each client puts on the wire
// (Hello, OpenSecureChannel, CreateSession) must reflect its own options or
// the library defaults, whatever was constructed before.

type c23Client struct {
	RecvBuf, SendBuf, MaxMsg, MaxChunks uint32 // 0 in Set means default
	LifetimeMs, SessionTimeoutMs        uint32
	AppName                             string
	Set                                 []string `json:"set"`
	// Dialer: "" (none), "nil-ack": opcua.Dialer(&uacp.Dialer{}) whose ClientACK is left
	// unset ("defaults to DefaultClientACK"), "own-ack": a dialer with its own ClientACK
	Dialer string `json:"dialer_option,omitempty"`
}

type c23Run struct {
	// what the scripted server acknowledges (deliberately not the client defaults)
	AckRecv, AckSend, AckMaxMsg, AckMaxChunks uint32
	Clients                                   []c23Client `json:"clients"`
	Order                                     []int       `json:"connect_order"`
}

func (r *c23Run) Sample() any { return r }

func (r *c23Run) Setup(s *sim.Sim) {
	p := s.Plan
	r.AckRecv = sim.Pick(p, uint32(65535), 8192, 16384, 32768)
	r.AckSend = sim.Pick(p, uint32(65535), 8192, 16384, 32768)
	r.AckMaxMsg = sim.Pick(p, uint32(0), 123456, 1<<22)
	r.AckMaxChunks = sim.Pick(p, uint32(0), 7, 512)
	n := 2 + p.Intn(7)
	for i := 0; i < n; i++ {
		var c c23Client
		if p.Intn(3) != 0 {
			for _, opt := range []string{"recv", "send", "maxmsg", "maxchunks", "lifetime", "sessiontimeout", "appname", "locale1", "locale2", "producturi", "appuri", "sessionname"} {
				if p.Intn(3) == 0 {
					c.Set = append(c.Set, opt)
				}
			}
		}
		c.RecvBuf = sim.Pick(p, uint32(8192), 16384, 32768, 100000)
		c.SendBuf = sim.Pick(p, uint32(8192), 16384, 32768, 100000)
		c.MaxMsg = sim.Pick(p, uint32(65536), 1<<20, 1<<24)
		c.MaxChunks = sim.Pick(p, uint32(1), 16, 4096)
		c.LifetimeMs = sim.Pick(p, uint32(10000), 60000, 600000)
		c.SessionTimeoutMs = sim.Pick(p, uint32(30000), 120000)
		c.AppName = fmt.Sprintf("app-%d", i)
		if p.Intn(4) == 0 {
			c.Dialer = sim.Pick(p, "nil-ack", "own-ack")
			// the Dialer option replaces the dialer the buffer options write to: keep them apart
			var keep []string
			for _, k := range c.Set {
				if k != "recv" && k != "send" && k != "maxmsg" && k != "maxchunks" {
					keep = append(keep, k)
				}
			}
			c.Set = keep
		}
		r.Clients = append(r.Clients, c)
	}
	r.Order = make([]int, n)
	for i := range r.Order {
		r.Order[i] = i
	}
	for i := n - 1; i > 0; i-- {
		j := p.Intn(i + 1)
		r.Order[i], r.Order[j] = r.Order[j], r.Order[i]
	}
}

func has(set []string, k string) bool {
	for _, x := range set {
		if x == k {
			return true
		}
	}
	return false
}

func (r *c23Run) Main(s *sim.Sim) {
	// documented library defaults (uacp constants, config.go)
	const defBuf, defLifetimeMs, defSessionTimeoutMs = uint32(0xffff), uint32(3600000), float64(20 * 60 * 1000)
	defAck := *uacp.DefaultClientACK
	srv, err := newRawServer(s, srvAddr)
	if err != nil {
		s.Fail("HARNESS", "setup", "rawsrv", "%v", err)
		return
	}
	defer srv.Close()
	srv.Ack.RecvBuf, srv.Ack.SendBuf, srv.Ack.MaxMsg, srv.Ack.MaxChunks = r.AckRecv, r.AckSend, r.AckMaxMsg, r.AckMaxChunks
	defClientCfg, defSessionCfg, defDialer := *opcua.DefaultClientConfig(), *opcua.DefaultSessionConfig(), opcua.DefaultDialer()
	type seen struct {
		lifetime uint32
		timeout  float64
		app      string
		product  string
		appURI   string
		sessName string
		locales  []string
	}
	obs := map[*rawSrvConn]*seen{}
	srv.OnOpen = func(c *rawSrvConn, reqID uint32, req *ua.OpenSecureChannelRequest) bool {
		if obs[c] == nil {
			obs[c] = &seen{}
		}
		obs[c].lifetime = req.RequestedLifetime
		return true
	}
	srv.OnRequest = sessionHandler(func(c *rawSrvConn, reqID uint32, req ua.Request) {})
	inner := srv.OnRequest
	srv.OnRequest = func(c *rawSrvConn, reqID uint32, req ua.Request) {
		if cs, ok := req.(*ua.CreateSessionRequest); ok {
			if obs[c] == nil {
				obs[c] = &seen{}
			}
			obs[c].timeout = cs.RequestedSessionTimeout
			if cs.ClientDescription != nil && cs.ClientDescription.ApplicationName != nil {
				obs[c].app = cs.ClientDescription.ApplicationName.Text
			}
			if cs.ClientDescription != nil {
				obs[c].product, obs[c].appURI = cs.ClientDescription.ProductURI, cs.ClientDescription.ApplicationURI
			}
			obs[c].sessName = cs.SessionName
		}
		if as, ok := req.(*ua.ActivateSessionRequest); ok {
			if obs[c] == nil {
				obs[c] = &seen{}
			}
			obs[c].locales = append([]string(nil), as.LocaleIDs...)
		}
		inner(c, reqID, req)
	}
	ctx := context.Background()
	clients := make([]*opcua.Client, len(r.Clients))
	custom := false
	for i, cc := range r.Clients {
		opts := []opcua.Option{opcua.SecurityMode(ua.MessageSecurityModeNone), opcua.AutoReconnect(false)}
		for _, k := range cc.Set {
			custom = true
			switch k {
			case "recv":
				opts = append(opts, opcua.ReceiveBufferSize(cc.RecvBuf))
			case "send":
				opts = append(opts, opcua.SendBufferSize(cc.SendBuf))
			case "maxmsg":
				opts = append(opts, opcua.MaxMessageSize(cc.MaxMsg))
			case "maxchunks":
				opts = append(opts, opcua.MaxChunkCount(cc.MaxChunks))
			case "lifetime":
				opts = append(opts, opcua.Lifetime(time.Duration(cc.LifetimeMs)*time.Millisecond))
			case "sessiontimeout":
				opts = append(opts, opcua.SessionTimeout(time.Duration(cc.SessionTimeoutMs)*time.Millisecond))
			case "appname":
				opts = append(opts, opcua.ApplicationName(cc.AppName))
			case "locale1":
				opts = append(opts, opcua.Locales("de-"+cc.AppName))
			case "locale2":
				if !has(cc.Set, "locale1") {
					opts = append(opts, opcua.Locales("fr-"+cc.AppName, "it-"+cc.AppName))
				}
			case "producturi":
				opts = append(opts, opcua.ProductURI("urn:product:"+cc.AppName))
			case "appuri":
				opts = append(opts, opcua.ApplicationURI("urn:app:"+cc.AppName))
			case "sessionname":
				opts = append(opts, opcua.SessionName("session-"+cc.AppName))
			}
		}
		switch cc.Dialer {
		case "nil-ack":
			custom = true
			opts = append(opts, opcua.Dialer(&uacp.Dialer{}))
		case "own-ack":
			custom = true
			opts = append(opts, opcua.Dialer(&uacp.Dialer{ClientACK: &uacp.Acknowledge{ReceiveBufSize: cc.RecvBuf, SendBufSize: cc.SendBuf, MaxMessageSize: cc.MaxMsg, MaxChunkCount: cc.MaxChunks}}))
		}
		c, err := opcua.NewClient(srvURL, opts...)
		if err != nil {
			s.Fail("HARNESS", "setup", "newclient", "%v", err)
			return
		}
		clients[i] = c
	}
	if custom {
		s.Nontrivial()
	}
	for _, i := range r.Order {
		cc := r.Clients[i]
		before := len(srv.Conns())
		cctx, cancel := context.WithTimeout(ctx, 10*time.Second)
		err := clients[i].Connect(cctx)
		cancel()
		if err != nil {
			s.Fail("HARNESS", "setup", "connect", "client %d: %v", i, err)
			return
		}
		conns := srv.Conns()
		if len(conns) != before+1 {
			s.Fail("HARNESS", "setup", "conns", "expected one new connection")
			return
		}
		rc := conns[len(conns)-1]
		h := rc.Hello
		want := func(opt string, custom, def uint32) uint32 {
			if has(cc.Set, opt) {
				return custom
			}
			if cc.Dialer == "own-ack" && (opt == "recv" || opt == "send" || opt == "maxmsg" || opt == "maxchunks") {
				return custom
			}
			return def
		}
		type chk struct {
			name      string
			got, want uint32
		}
		for _, k := range []chk{
			{"ReceiveBufferSize", h.RecvBuf, want("recv", cc.RecvBuf, defBuf)},
			{"SendBufferSize", h.SendBuf, want("send", cc.SendBuf, defBuf)},
			{"MaxMessageSize", h.MaxMsg, want("maxmsg", cc.MaxMsg, 0)},
			{"MaxChunkCount", h.MaxChunks, want("maxchunks", cc.MaxChunks, 0)},
			{"Lifetime", obs[rc].lifetime, want("lifetime", cc.LifetimeMs, defLifetimeMs)},
		} {
			if k.got != k.want {
				src := "the library default"
				if k.want != defBuf && k.want != 0 && k.want != defLifetimeMs {
					src = "its own option"
				}
				s.Fail("C23", "foreign-option", k.name, "client %d (options %v) announced %s=%d on the wire, expected %d (%s); constructions: %+v", i, cc.Set, k.name, k.got, k.want, src, r.Clients)
				return
			}
		}
		wantTO := defSessionTimeoutMs
		if has(cc.Set, "sessiontimeout") {
			wantTO = float64(cc.SessionTimeoutMs)
		}
		if obs[rc].timeout != wantTO {
			s.Fail("C23", "foreign-option", "SessionTimeout", "client %d requested session timeout %v, expected %v", i, obs[rc].timeout, wantTO)
			return
		}
		wantLoc := fmt.Sprint(defSessionCfg.LocaleIDs)
		if has(cc.Set, "locale1") {
			wantLoc = fmt.Sprint([]string{"de-" + cc.AppName})
		} else if has(cc.Set, "locale2") {
			wantLoc = fmt.Sprint([]string{"fr-" + cc.AppName, "it-" + cc.AppName})
		}
		if got := fmt.Sprint(obs[rc].locales); got != wantLoc {
			s.Fail("C23", "foreign-option", "Locales", "client %d (options %v) activated its session with locales %s, expected %s; constructions: %+v", i, cc.Set, got, wantLoc, r.Clients)
			return
		}
		for _, k := range []struct{ name, opt, got, own, def string }{
			{"ProductURI", "producturi", obs[rc].product, "urn:product:" + cc.AppName, defSessionCfg.ClientDescription.ProductURI},
			{"ApplicationURI", "appuri", obs[rc].appURI, "urn:app:" + cc.AppName, defSessionCfg.ClientDescription.ApplicationURI},
			{"SessionName", "sessionname", obs[rc].sessName, "session-" + cc.AppName, ""},
		} {
			want := k.def
			if has(cc.Set, k.opt) {
				want = k.own
			}
			if k.opt == "sessionname" && !has(cc.Set, k.opt) {
				continue // the default session name is generated per client
			}
			if k.got != want {
				s.Fail("C23", "foreign-option", k.name, "client %d (options %v) sent %s=%q, expected %q", i, cc.Set, k.name, k.got, want)
				return
			}
		}
		if has(cc.Set, "appname") != (obs[rc].app == cc.AppName) {
			s.Fail("C23", "foreign-option", "ApplicationName", "client %d (options %v) sent application name %q", i, cc.Set, obs[rc].app)
			return
		}
	}
	if *uacp.DefaultClientACK != defAck {
		s.Fail("C23", "defaults-modified", "uacp.DefaultClientACK", "package default changed from %+v to %+v", defAck, *uacp.DefaultClientACK)
		return
	}
	if got := *opcua.DefaultClientConfig(); !reflect.DeepEqual(got, defClientCfg) {
		s.Fail("C23", "defaults-modified", "opcua.DefaultClientConfig", "DefaultClientConfig changed from %+v to %+v", defClientCfg, got)
		return
	}
	if got := *opcua.DefaultSessionConfig(); !reflect.DeepEqual(got, defSessionCfg) {
		s.Fail("C23", "defaults-modified", "opcua.DefaultSessionConfig", "DefaultSessionConfig changed from %+v to %+v", defSessionCfg, got)
		return
	}
	if got := opcua.DefaultDialer(); !reflect.DeepEqual(got.ClientACK, defDialer.ClientACK) {
		s.Fail("C23", "defaults-modified", "opcua.DefaultDialer", "DefaultDialer().ClientACK changed from %+v to %+v", defDialer.ClientACK, got.ClientACK)
		return
	}
	// a client created now still gets the defaults
	late, _ := opcua.NewClient(srvURL, opcua.SecurityMode(ua.MessageSecurityModeNone), opcua.AutoReconnect(false))
	cctx, cancel := context.WithTimeout(ctx, 10*time.Second)
	err = late.Connect(cctx)
	cancel()
	if err == nil {
		conns := srv.Conns()
		h := conns[len(conns)-1].Hello
		if h.RecvBuf != defBuf || h.SendBuf != defBuf || h.MaxMsg != 0 || h.MaxChunks != 0 {
			s.Fail("C23", "foreign-option", "late-default-client", "a client created after the others announced %+v instead of the defaults", h)
			return
		}
	}
	s.Teardown()
	for _, c := range clients {
		c.Close(ctx)
	}
	late.Close(ctx)
}

func (r *c23Run) Finish(s *sim.Sim) {}

func init() {
	Register(&Scenario{Name: "c23", Props: []string{"C23"}, Horizon: 5 * time.Minute, New: func() Run { return &c23Run{} }, StuckProperty: "HARNESS"})
}
