//go:build verif

package scen

import (
	"context"
	"fmt"
	"reflect"
	"regexp"
	"strings"
	"sync"
	"time"

	"github.com/gopcua/opcua"
	"github.com/gopcua/opcua/id"
	"github.com/gopcua/opcua/ua"

	"verif/sim"
)

// C25: connection state follows the documented lifecycle under faults.

type c25Fault struct {
	Kind    string `json:"kind"`    // rst | stall | outage | crash
	Trigger string `json:"trigger"` // time | c2s | s2c
	N       int    `json:"n"`       // frame ordinal (c2s/s2c) or milliseconds (time)
	DurMs   int    `json:"dur_ms"`
	fired   bool
}

type c25Run struct {
	AutoReconnect bool       `json:"auto_reconnect"`
	ReconnectMs   int        `json:"reconnect_ms"`
	RequestMs     int        `json:"request_timeout_ms"`
	DialMs        int        `json:"dial_timeout_ms"`
	LifetimeMs    int        `json:"lifetime_ms"`
	Faults        []c25Fault `json:"faults"`
	CloseEarlyMs  int        `json:"close_early_ms"` // >0: Close is called at that time, in the middle of the fault phase
	// CloseOnState, if set, calls Close as soon as the client has reported that state after
	// having been Connected (i.e. while its reconnect monitor is at work), and holds the
	// closing goroutine between CloseSession and the rest of Close for CloseHoldMs, so that
	// the monitor's next dial can complete inside Close
	CloseOnState string `json:"close_on_state,omitempty"`
	CloseHoldMs  int    `json:"close_hold_ms,omitempty"`
	RestoreNodes  bool       `json:"restore_nodes"`
	WithSub       bool       `json:"with_subscription"`
	ReuseClient   bool       `json:"reuse_client"` // retry Connect on the same Client after a failed Connect

	cl        *opcua.Client // the client under test (for hint)
	mu        sync.Mutex
	states    []opcua.ConnState
	stateAt   []time.Duration
	closeRet  bool
	fmu       sync.Mutex // guards lastFault, downUntil, e, c2s, s2c, Faults[i].fired
	lastFault time.Duration
	downUntil time.Duration
	c2s, s2c  int
	e         *env
	s         *sim.Sim
}

func (r *c25Run) Sample() any { return r }

func (r *c25Run) Setup(s *sim.Sim) {
	p := s.Plan
	s.DrawPolicy()
	r.AutoReconnect = p.Intn(8) != 0
	r.ReconnectMs = sim.Pick(p, 100, 500, 1000, 5000)
	r.RequestMs = sim.Pick(p, 1000, 2000, 5000, 10000)
	r.DialMs = sim.Pick(p, 1000, 5000, 10000)
	r.LifetimeMs = sim.Pick(p, 3600000, 60000, 20000, 8000)
	r.RestoreNodes = p.Bool()
	r.WithSub = p.Chance(1, 3)
	r.ReuseClient = p.Chance(1, 4)
	n := 1 + p.Intn(4)
	if p.Chance(1, 10) {
		n = 0 // fault free
	}
	for i := 0; i < n; i++ {
		f := c25Fault{Kind: sim.Pick(p, "rst", "rst", "rst", "stall", "outage", "crash", "crash")}
		switch p.Intn(3) {
		case 0:
			f.Trigger, f.N = "time", p.Intn(40000)
		case 1:
			f.Trigger, f.N = "c2s", 1+p.Intn(30)
		default:
			f.Trigger, f.N = "s2c", 1+p.Intn(30)
		}
		f.DurMs = sim.Pick(p, 0, 100, 1000, 5000, 20000, 60000)
		if f.Kind == "stall" && f.DurMs == 0 {
			f.DurMs = 500
		}
		r.Faults = append(r.Faults, f)
	}
	if p.Chance(1, 5) {
		r.CloseEarlyMs = 1 + p.Intn(45000)
	}
	// (drawn last: plans of runs that do not take this branch are what they were before)
	if r.CloseEarlyMs == 0 && r.AutoReconnect && p.Chance(1, 5) {
		r.CloseEarlyMs = 45000
		r.CloseOnState = sim.Pick(p, "Disconnected", "Reconnecting", "Reconnecting")
		r.CloseHoldMs = sim.Pick(p, 0, 1, 20, 200, 1000, 3000) + p.Intn(2)*r.ReconnectMs
	}
}

const c25FaultPhase = 45 * time.Second

func (r *c25Run) noteFault(end time.Duration) { // fmu held
	if end > r.lastFault {
		r.lastFault = end
	}
}

func (r *c25Run) last() time.Duration { r.fmu.Lock(); defer r.fmu.Unlock(); return r.lastFault }
func (r *c25Run) env() *env           { r.fmu.Lock(); defer r.fmu.Unlock(); return r.e }

func (r *c25Run) startEnv() error {
	e, err := startServerOnRoot(r.s, func(e *env) {
		if r.RestoreNodes || r.env() == nil {
			e.ns.AddNewVariableStringNode("x", int32(5))
		}
	})
	if err != nil {
		return err
	}
	r.fmu.Lock()
	r.e = e
	r.fmu.Unlock()
	return nil
}

// apply runs on the root goroutine.
func (r *c25Run) apply(f *c25Fault, c *sim.Conn) {
	r.fmu.Lock()
	defer r.fmu.Unlock()
	if f.fired {
		return
	}
	s := r.s
	now := s.Now()
	if now > c25FaultPhase {
		return
	}
	if (f.Kind == "outage" || f.Kind == "crash") && now < r.downUntil {
		return // server is already down
	}
	f.fired = true
	dur := time.Duration(f.DurMs) * time.Millisecond
	s.Fault(f.Kind)
	s.Tracef("fault %s", f.Kind)
	switch f.Kind {
	case "rst":
		if c == nil {
			for _, x := range s.Net.Conns() {
				if !x.Dead() {
					c = x
				}
			}
		}
		if c != nil {
			c.Reset()
		}
		r.noteFault(now)
	case "stall":
		for _, x := range s.Net.Conns() {
			if !x.Dead() {
				x.C2S.StallUntil, x.S2C.StallUntil = now+dur, now+dur
			}
		}
		r.noteFault(now + dur)
	case "outage":
		s.Net.SetRefuse(srvAddr, true)
		s.Net.ResetAll(srvAddr)
		r.noteFault(now + dur)
		r.downUntil = now + dur + time.Nanosecond
		s.AddAction(&sim.Action{Name: "outage-end", At: now + dur, Do: func() { s.Net.SetRefuse(srvAddr, false) }})
	case "crash":
		old := r.e
		s.Net.SetRefuse(srvAddr, true)
		s.Net.ResetAll(srvAddr)
		s.Net.CloseListener(srvAddr)
		old.cancel()
		r.noteFault(now + dur)
		r.downUntil = now + dur + time.Nanosecond
		s.AddAction(&sim.Action{Name: "restart", At: now + dur, Do: func() {
			if err := r.startEnv(); err != nil {
				s.Fail("HARNESS", "setup", "restart", "%v", err)
			}
			s.Net.SetRefuse(srvAddr, false)
		}})
	}
}

func (r *c25Run) Main(s *sim.Sim) {
	r.s = s
	var err error
	s.NoSched(func() { err = r.startEnv() })
	if err != nil {
		s.Fail("HARNESS", "setup", "server", "%v", err)
		return
	}
	// fault triggers
	for i := range r.Faults {
		f := &r.Faults[i]
		if f.Trigger == "time" {
			s.AddAction(&sim.Action{Name: "fault-" + f.Kind, At: time.Duration(f.N) * time.Millisecond, Do: func() { r.apply(f, nil) }})
		}
	}
	s.Net.OnConn = func(c *sim.Conn) {
		c.C2S.Observers = append(c.C2S.Observers, func(fr []byte) {
			r.fmu.Lock()
			r.c2s++
			n := r.c2s
			r.fmu.Unlock()
			for i := range r.Faults {
				if f := &r.Faults[i]; f.Trigger == "c2s" && f.N == n {
					r.apply(f, c)
				}
			}
		})
		c.S2C.Observers = append(c.S2C.Observers, func(fr []byte) {
			r.fmu.Lock()
			r.s2c++
			n := r.s2c
			r.fmu.Unlock()
			for i := range r.Faults {
				if f := &r.Faults[i]; f.Trigger == "s2c" && f.N == n {
					r.apply(f, c)
				}
			}
		})
	}

	ctx := context.Background()
	var cl *opcua.Client
	mk := func() (*opcua.Client, error) {
		return newClient(
			opcua.AutoReconnect(r.AutoReconnect),
			opcua.ReconnectInterval(time.Duration(r.ReconnectMs)*time.Millisecond),
			opcua.RequestTimeout(time.Duration(r.RequestMs)*time.Millisecond),
			opcua.DialTimeout(time.Duration(r.DialMs)*time.Millisecond),
			opcua.Lifetime(time.Duration(r.LifetimeMs)*time.Millisecond),
			opcua.StateChangedFunc(func(st opcua.ConnState) {
				r.mu.Lock()
				r.states = append(r.states, st)
				r.stateAt = append(r.stateAt, s.Now())
				closed := r.closeRet
				r.mu.Unlock()
				s.Tracef("state %v", st)
				if closed && st != opcua.Closed {
					s.Fail("C25", "state-after-close", "state-"+st.String(), "state %v reported after Close() returned", st)
				}
			}),
		)
	}
	cl, err = mk()
	if err != nil {
		s.Fail("HARNESS", "setup", "client", "%v", err)
		return
	}

	reqTO := time.Duration(r.RequestMs) * time.Millisecond
	recon := time.Duration(r.ReconnectMs) * time.Millisecond
	dialTO := time.Duration(r.DialMs) * time.Millisecond
	bound := dialTO + 3*recon + 5*reqTO + 2*time.Second

	stopTraffic := make(chan struct{})
	trafficDone := make(chan struct{})
	closeEarly := r.CloseEarlyMs > 0
	var closeAt time.Duration
	if closeEarly {
		closeAt = time.Duration(r.CloseEarlyMs) * time.Millisecond
	}

	// connect, retrying while faults may still flow
	connected := false
	for attempt := 0; ; attempt++ {
		cctx, cancel := context.WithTimeout(ctx, dialTO+4*reqTO)
		err := cl.Connect(cctx)
		cancel()
		if err == nil {
			connected = true
			break
		}
		s.Probe("connect-failed")
		if cl.State() == opcua.Connected {
			s.Fail("C25", "state", "connected-after-failed-connect", "Connect returned %v but State() is Connected", err)
			return
		}
		if s.Now() > c25FaultPhase+r.last()+bound+30*time.Second {
			sig := "connect-never-succeeds"
			if r.ReuseClient && attempt > 0 && strings.Contains(err.Error(), "already connected") {
				// the catalogued finding about retrying Connect on the same Client: the failed
				// attempt left its secure channel behind, every retry is refused at once
				sig = "connect-never-succeeds:connect-retried-on-same-client"
			}
			s.Fail("C25", "liveness", sig, "Connect still failing %v after the last fault: %v", s.Now()-r.last(), err)
			return
		}
		if closeEarly && s.Now() >= closeAt {
			break
		}
		time.Sleep(recon)
		if !r.ReuseClient {
			// a fresh Client per attempt: the failed one must be cleanly closed
			if st := cl.State(); st != opcua.Closed {
				s.Fail("C25", "state", "not-closed-after-failed-connect", "State() is %v after Connect failed with %v", st, err)
				return
			}
			r.mu.Lock()
			r.states, r.stateAt = nil, nil
			r.mu.Unlock()
			if cl, err = mk(); err != nil {
				s.Fail("HARNESS", "setup", "client", "%v", err)
				return
			}
		} else {
			s.Probe("connect-retried-on-same-client")
		}
	}
	if connected && r.WithSub {
		ch := make(chan *opcua.PublishNotificationData, 1000)
		if sub, err := cl.Subscribe(ctx, &opcua.SubscriptionParameters{Interval: 200 * time.Millisecond}, ch); err == nil {
			sub.Monitor(ctx, ua.TimestampsToReturnBoth, opcua.NewMonitoredItemCreateRequestWithDefaults(r.env().nodeID("x"), ua.AttributeIDValue, 7))
		}
		go func() {
			for {
				select {
				case <-ch:
				case <-trafficDone:
					return
				}
			}
		}()
	}
	stateReq := &ua.ReadRequest{NodesToRead: []*ua.ReadValueID{{NodeID: ua.NewNumericNodeID(0, id.Server_ServerStatus_State), AttributeID: ua.AttributeIDValue}}}
	go func() {
		defer close(trafficDone)
		for {
			select {
			case <-stopTraffic:
				return
			case <-time.After(300 * time.Millisecond):
			}
			rctx, cancel := context.WithTimeout(ctx, 2*reqTO)
			_, err := cl.Read(rctx, stateReq)
			cancel()
			if err != nil {
				s.Probe("read-failed-during-faults")
			} else {
				s.Probe("read-ok")
			}
		}
	}()

	if closeEarly {
		if r.CloseOnState != "" {
			if r.CloseHoldMs > 0 {
				s.SlowPermille, s.SlowMax, s.SlowDurs = 1000, 1, []time.Duration{time.Duration(r.CloseHoldMs) * time.Millisecond}
				s.SlowMatch = func(label string) bool { return label == "client.Close.afterCloseSession" }
			}
			for s.Now() < closeAt {
				seq := r.snapshot()
				hit, wasConnected := false, false
				for _, st := range seq {
					if st == opcua.Connected {
						wasConnected = true
					} else if wasConnected && st.String() == r.CloseOnState {
						hit = true
					}
				}
				if hit && len(seq) > 0 && seq[len(seq)-1].String() == r.CloseOnState {
					s.Probe("close-while-" + r.CloseOnState)
					break
				}
				time.Sleep(5 * time.Millisecond)
			}
			s.Yield("c25.close") // woken by a timer: let the scheduler order it
		} else if d := closeAt - s.Now(); d > 0 {
			time.Sleep(d)
		}
		s.Probe("close-during-fault-phase")
	} else {
		// wait for the fault phase to end, then for the recovery bound
		time.Sleep(c25FaultPhase - s.Now() + time.Millisecond)
		for s.Now() < r.last()+bound {
			time.Sleep(r.last() + bound - s.Now() + time.Millisecond)
		}
		fired := 0
		r.fmu.Lock()
		for _, f := range r.Faults {
			if f.fired {
				fired++
			}
		}
		r.fmu.Unlock()
		if fired > 0 {
			s.Nontrivial()
		}
		if connected && r.AutoReconnect {
			r.cl = cl
			if st := cl.State(); st != opcua.Connected {
				s.Fail("C25", "liveness", "not-connected-after-faults:"+r.hint(), "state is %v, %v after the last fault ended (bound %v); states=%v\nfaults %+v\n%s", st, s.Now()-r.last(), bound, r.stateLog(), r.Faults, clientStacks())
				return
			}
			rctx, cancel := context.WithTimeout(ctx, 2*reqTO)
			_, err := cl.Read(rctx, stateReq)
			cancel()
			if err != nil {
				s.Fail("C25", "liveness", "read-fails-after-faults:"+r.hint(), "Read fails with %v, %v after the last fault ended; states=%v", err, s.Now()-r.last(), r.stateLog())
				return
			}
			s.Probe("recovered")
		}
		if fired == 0 && connected {
			// fault free: nothing may have gone wrong
			for i, st := range r.snapshot() {
				if i > 1 || (i == 0 && st != opcua.Connecting) || (i == 1 && st != opcua.Connected) {
					s.Fail("C25", "state", "spurious-state-change-without-fault", "states without any fault: %v", r.stateLog())
					return
				}
			}
		}
	}
	close(stopTraffic)
	<-trafficDone

	// Close must return, report Closed and stop everything
	stateAtClose := cl.State()
	closeDone := make(chan struct{})
	go func() {
		cl.Close(ctx)
		close(closeDone)
	}()
	select {
	case <-closeDone:
	case <-time.After(dialTO + 3*reqTO + 10*time.Second):
		s.Fail("C25", "close-hangs", "close-does-not-return", "Close() did not return within %v; states=%v\n%s", dialTO+3*reqTO+10*time.Second, r.stateLog(), clientStacks())
		return
	}
	r.mu.Lock()
	r.closeRet = true
	r.mu.Unlock()
	if st := cl.State(); st != opcua.Closed {
		sig := "not-closed-after-close:" + st.String()
		// Close did report Closed and the reconnect monitor, still at work, reported its own
		// state after that: the recorded sequence ends ... Closed, <monitor state>
		seq := r.snapshot()
		for i := len(seq) - 2; i >= 0 && i >= len(seq)-3; i-- {
			if seq[i] == opcua.Closed && seq[len(seq)-1] == st && st != opcua.Connecting {
				sig = "not-closed-after-close:monitor-overwrote-Closed-with-" + st.String()
			}
		}
		s.Fail("C25", "state", sig, "State() is %v after Close() returned (it was %v when Close was called); states=%v", st, stateAtClose, r.stateLog())
		return
	}
	dials := s.Net.Dials
	time.Sleep(3*recon + dialTO + 2*reqTO + 30*time.Second)
	if s.Net.Dials != dials {
		s.Fail("C25", "dial-after-close", "reconnect-after-close", "%d connection attempts after Close() returned; states=%v", s.Net.Dials-dials, r.stateLog())
		return
	}
	if st := cl.State(); st != opcua.Closed {
		s.Fail("C25", "state", "state-changes-after-close", "State() is %v some time after Close()", st)
		return
	}
	if leak := clientStacks(); leak != "" {
		s.Fail("C25", "goroutine-leak", leakSig(leak), "client goroutines still running %v after Close():\n%s", 3*recon+dialTO+2*reqTO+30*time.Second, leak)
		return
	}
	r.checkStates(s)
	r.env().cancel()
}

// hint narrows a liveness failure down to a catalogued cause, if the evidence
// of that cause is present: both catalogued findings end with a client that has
// no live transport connection and nobody working on getting one (it reports
// Connected on a connection that was reset, or its reconnect monitor is not
// running at all). A failure without that evidence is not explained by them.
func (r *c25Run) hint() string {
	conns := r.s.Net.Conns()
	dead := len(conns) > 0 && conns[len(conns)-1].Dead()
	monitorRunning := false
	for _, g := range strings.Split(sim.GoroutineDump(), "\n\n") {
		if strings.Contains(g, "opcua.(*Client).monitor(") {
			monitorRunning = true
			if strings.Contains(g, "opcua.(*Client).pauseSubscriptions(") {
				// the pause/resume token protocol of the publish loop (catalogued under C27): the
				// reconnect monitor sits in its send on the full two-slot pausech and never dials
				return "reconnect-monitor-blocked-sending-pause"
			}
		}
	}
	stuckOnDeadConn := dead && r.cl != nil && r.cl.State() == opcua.Connected
	// "no connection monitor at all" is the catalogued finding only if an earlier Connect on
	// this Client got as far as Connected (that is where the one and only monitor is started)
	// and was closed again by a later step of that Connect failing
	seq := r.snapshot()
	lastConnecting := -1
	for i, st := range seq {
		if st == opcua.Connecting {
			lastConnecting = i
		}
	}
	earlierConnected := false
	for i, st := range seq {
		if st == opcua.Connected && i < lastConnecting {
			earlierConnected = true
		}
	}
	switch {
	case r.ReuseClient && r.s.ProbeCount("connect-retried-on-same-client") > 0 && (stuckOnDeadConn || (!monitorRunning && earlierConnected)):
		return "connect-retried-on-same-client"
	case r.s.Label("client.monitor.drainError") > 0 && stuckOnDeadConn:
		return "disconnect-error-drained-after-reconnect"
	}
	return "unexplained"
}

func (r *c25Run) snapshot() []opcua.ConnState {
	r.mu.Lock()
	defer r.mu.Unlock()
	return append([]opcua.ConnState(nil), r.states...)
}

func (r *c25Run) stateLog() string {
	r.mu.Lock()
	defer r.mu.Unlock()
	var b strings.Builder
	for i, st := range r.states {
		fmt.Fprintf(&b, "%v@%v ", st, r.stateAt[i].Round(time.Millisecond))
	}
	return b.String()
}

// checkStates checks the documented meaning of the reported states.
func (r *c25Run) checkStates(s *sim.Sim) {
	seq := r.snapshot()
	if len(seq) == 0 {
		return
	}
	if seq[0] != opcua.Connecting {
		s.Fail("C25", "state", "first-state-not-connecting", "first reported state is %v; states=%v", seq[0], r.stateLog())
		return
	}
	everConnected := false
	connectedSinceClosed := false
	for i, st := range seq {
		switch st {
		case opcua.Connected:
			everConnected = true
			connectedSinceClosed = true
		case opcua.Closed:
			connectedSinceClosed = false
		case opcua.Reconnecting:
			if !everConnected {
				s.Fail("C25", "state", "reconnecting-before-connected", "Reconnecting reported (index %d) although never Connected; states=%v", i, r.stateLog())
				return
			}
		case opcua.Connecting:
			if connectedSinceClosed {
				s.Fail("C25", "state", "connecting-after-connected", "Connecting (first-time connect) reported (index %d) after Connected without Closed in between; states=%v", i, r.stateLog())
				return
			}
		}
	}
}

var clientFrameRe = regexp.MustCompile(`github\.com/gopcua/opcua\.\(\*(Client|Subscription)\)|uasc\.\(\*SecureChannel\)\.(dispatcher|scheduleRenewal|scheduleExpiration|renew)`)

// clientStacks returns the stacks of goroutines that run client code.
func clientStacks() string {
	var out []string
	for _, g := range strings.Split(sim.GoroutineDump(), "\n\n") {
		if clientFrameRe.MatchString(g) && !strings.Contains(g, "verif/scen.clientStacks") {
			out = append(out, g)
		}
	}
	return strings.Join(out, "\n\n")
}

// publishLoopPaused reports whether the publish loop goroutine of client c is
// waiting in its paused state (it is not inside publish()). Other clients of the
// run (writers without subscriptions are paused by design) are not looked at: the
// goroutine is identified by the receiver pointer in its stack trace.
func publishLoopPaused(c *opcua.Client) bool {
	recv := fmt.Sprintf("opcua.(*Client).monitorSubscriptions(%#x,", reflect.ValueOf(c).Pointer())
	for _, g := range strings.Split(sim.GoroutineDump(), "\n\n") {
		if strings.Contains(g, recv) && !strings.Contains(g, "opcua.(*Client).publish(") {
			hdr, _, _ := strings.Cut(g, "\n")
			if strings.Contains(hdr, "select") {
				return true
			}
		}
	}
	return false
}

var leakFnRe = regexp.MustCompile(`(github\.com/gopcua/opcua[^\s(]*\([^)]*\)\.[A-Za-z_]+)`)

func leakSig(stack string) string {
	seen := map[string]bool{}
	var fns []string
	for _, g := range strings.Split(stack, "\n\n") {
		// deepest repo frame of each goroutine (last match = outermost; take the first repo frame listed)
		m := leakFnRe.FindString(g)
		m = strings.TrimPrefix(m, "github.com/gopcua/opcua")
		if m != "" && !seen[m] {
			seen[m] = true
			fns = append(fns, m)
		}
	}
	if len(fns) > 3 {
		fns = fns[:3]
	}
	return strings.Join(fns, ",")
}

func (r *c25Run) Finish(s *sim.Sim) {}

func init() {
	Register(&Scenario{Name: "c25", Props: []string{"C25"}, Horizon: 30 * time.Minute, MaxSteps: 400000, New: func() Run { return &c25Run{} }, StuckProperty: "C25"})
}
