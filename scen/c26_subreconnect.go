//go:build verif

package scen

import (
	"context"
	"fmt"
	"sort"
	"sync"
	"time"

	"github.com/gopcua/opcua"
	"github.com/gopcua/opcua/ua"

	"verif/sim"
)

// C26: subscriptions survive reconnects and notifications are acknowledged once.

type c26Fault struct {
	Kind  string `json:"kind"` // rst stall outage crash
	AtMs  int    `json:"at_ms"`
	DurMs int    `json:"dur_ms"`
}

type c26Run struct {
	Subs            int        `json:"subs"`
	ItemsPerSub     int        `json:"items_per_sub"`
	MixedTimestamps bool       `json:"mixed_timestamps_to_return"`
	IntervalMs      int        `json:"interval_ms"`
	ReconnectMs     int        `json:"reconnect_ms"`
	RequestMs       int        `json:"request_timeout_ms"`
	Faults          []c26Fault `json:"faults"`
	Restore         bool       `json:"restore_nodes"`

	s            *sim.Sim
	e            *env
	mu           sync.Mutex
	lastFault    time.Duration
	downUntil    time.Duration
	firstFaultEv uint64                 // event sequence number of the first fault (0: none)
	got          map[int]map[int32]bool // sub index -> values seen
	// wire history
	evs []c26Ev
}

type c26Ev struct {
	at     uint64
	kind   string // "resp" (delivered to client) or "req" (delivered to server) or "reqw" (written by client)
	sub    uint32
	seq    uint32
	acks   [][2]uint32
	bad    map[[2]uint32]bool
	conn   int
	hasNd  bool
	handle uint32
	t      time.Duration
}

func (r *c26Run) Sample() any { return r }

func (r *c26Run) Setup(s *sim.Sim) {
	p := s.Plan
	s.DrawPolicy()
	r.Subs = 1 + p.Intn(3)
	r.ItemsPerSub = 1 + p.Intn(3)
	r.MixedTimestamps = p.Bool()
	r.IntervalMs = sim.Pick(p, 50, 100, 250)
	r.ReconnectMs = sim.Pick(p, 100, 500, 2000)
	r.RequestMs = sim.Pick(p, 1000, 3000)
	r.Restore = true
	n := 1 + p.Intn(3)
	if p.Chance(1, 8) {
		n = 0
	}
	for i := 0; i < n; i++ {
		f := c26Fault{Kind: sim.Pick(p, "rst", "rst", "rst", "outage", "crash"), AtMs: 1000 + p.Intn(20000), DurMs: sim.Pick(p, 0, 200, 2000, 10000)}
		if f.Kind == "stall" && f.DurMs == 0 {
			f.DurMs = 500
		}
		r.Faults = append(r.Faults, f)
	}
}

const c26FaultPhase = 25 * time.Second

func (r *c26Run) nodes() int { return r.Subs * r.ItemsPerSub }

func (r *c26Run) startEnv() error {
	e, err := startServerOnRoot(r.s, func(e *env) {
		for i := 0; i < r.nodes(); i++ {
			e.ns.AddNewVariableStringNode(fmt.Sprintf("n%d", i), int32(i*c28Mul))
		}
	})
	if err == nil {
		r.e = e
	}
	return err
}

func (r *c26Run) note(end time.Duration) {
	if end > r.lastFault {
		r.lastFault = end
	}
}

func (r *c26Run) apply(f c26Fault) {
	s := r.s
	now := s.Now()
	dur := time.Duration(f.DurMs) * time.Millisecond
	if (f.Kind == "outage" || f.Kind == "crash") && now < r.downUntil {
		return
	}
	s.Fault(f.Kind)
	s.Tracef("fault %s", f.Kind)
	if r.firstFaultEv == 0 {
		r.firstFaultEv = s.Event()
	}
	switch f.Kind {
	case "rst":
		for _, c := range s.Net.Conns() {
			if !c.Dead() && c.ID == 0 {
				c.Reset()
			}
		}
		// the monitored client is the first connection of each generation: reset the newest live client connection too
		conns := s.Net.Conns()
		for i := len(conns) - 1; i >= 0; i-- {
			if !conns[i].Dead() && conns[i].Tag == "monitored" {
				conns[i].Reset()
				break
			}
		}
		r.note(now)
	case "stall":
		for _, c := range s.Net.Conns() {
			if !c.Dead() {
				c.C2S.StallUntil, c.S2C.StallUntil = now+dur, now+dur
			}
		}
		r.note(now + dur)
	case "outage":
		s.Net.SetRefuse(srvAddr, true)
		s.Net.ResetAll(srvAddr)
		r.note(now + dur)
		r.downUntil = now + dur + 1
		s.AddAction(&sim.Action{Name: "outage-end", At: now + dur, Do: func() { s.Net.SetRefuse(srvAddr, false) }})
	case "crash":
		old := r.e
		s.Net.SetRefuse(srvAddr, true)
		s.Net.ResetAll(srvAddr)
		s.Net.CloseListener(srvAddr)
		old.cancel()
		r.note(now + dur)
		r.downUntil = now + dur + 1
		s.AddAction(&sim.Action{Name: "restart", At: now + dur, Do: func() {
			if err := r.startEnv(); err != nil {
				s.Fail("HARNESS", "setup", "restart", "%v", err)
			}
			s.Net.SetRefuse(srvAddr, false)
		}})
	}
}

// decodeNone decodes the service carried by a single-chunk None-mode MSG frame.
func decodeNone(fr []byte) (any, bool) {
	if len(fr) < 24 || string(fr[:4]) != "MSGF" {
		return nil, false
	}
	_, svc, err := ua.DecodeService(fr[24:])
	if err != nil {
		return nil, false
	}
	return svc, true
}

func (r *c26Run) Main(s *sim.Sim) {
	r.s = s
	r.got = map[int]map[int32]bool{}
	var err error
	s.NoSched(func() { err = r.startEnv() })
	if err != nil {
		s.Fail("HARNESS", "setup", "server", "%v", err)
		return
	}
	ctx := context.Background()
	var tagMu sync.Mutex // OnConn runs on whichever goroutine dials
	tagNext := ""
	s.Net.OnConn = func(c *sim.Conn) {
		tagMu.Lock()
		tag := tagNext
		tagMu.Unlock()
		c.Tag = tag
		if tag != "monitored" {
			return
		}
		id := c.ID
		wireLog(s, c)
		c.S2C.DeliveredObservers = append(c.S2C.DeliveredObservers, func(fr []byte) {
			if svc, ok := decodeNone(fr); ok {
				if pr, ok := svc.(*ua.PublishResponse); ok && pr.NotificationMessage != nil {
					ev := c26Ev{at: s.Event(), kind: "resp", sub: pr.SubscriptionID, seq: pr.NotificationMessage.SequenceNumber, conn: id, hasNd: len(pr.NotificationMessage.NotificationData) > 0, handle: pr.ResponseHeader.RequestHandle, t: s.Now()}
					r.mu.Lock()
					r.evs = append(r.evs, ev)
					r.mu.Unlock()
				}
			}
		})
		mk := func(kind string) func(fr []byte) {
			return func(fr []byte) {
				if svc, ok := decodeNone(fr); ok {
					if pq, ok := svc.(*ua.PublishRequest); ok {
						ev := c26Ev{at: s.Event(), kind: kind, conn: id, handle: pq.RequestHeader.RequestHandle, t: s.Now()}
						for _, a := range pq.SubscriptionAcknowledgements {
							ev.acks = append(ev.acks, [2]uint32{a.SubscriptionID, a.SequenceNumber})
						}
						r.mu.Lock()
						r.evs = append(r.evs, ev)
						r.mu.Unlock()
					}
				}
			}
		}
		c.C2S.Observers = append(c.C2S.Observers, func(fr []byte) {
			if svc, ok := decodeNone(fr); ok {
				if dq, ok := svc.(*ua.DeleteSubscriptionsRequest); ok {
					r.mu.Lock()
					for _, id := range dq.SubscriptionIDs {
						r.evs = append(r.evs, c26Ev{at: s.Event(), kind: "del", sub: id})
					}
					r.mu.Unlock()
				}
			}
		})
		c.C2S.DeliveredObservers = append(c.C2S.DeliveredObservers, mk("req"))
		c.C2S.Observers = append(c.C2S.Observers, mk("reqw"))
	}
	reqTO := time.Duration(r.RequestMs) * time.Millisecond
	recon := time.Duration(r.ReconnectMs) * time.Millisecond
	tagMu.Lock()
	tagNext = "monitored"
	tagMu.Unlock()
	cl, err := newClient(opcua.AutoReconnect(true), opcua.ReconnectInterval(recon), opcua.RequestTimeout(reqTO), opcua.DialTimeout(2*time.Second))
	if err == nil {
		err = cl.Connect(ctx)
	}
	if err != nil {
		s.Fail("HARNESS", "setup", "connect", "%v", err)
		return
	}
	// the client re-dials on its own: every later connection of this address
	// that is not explicitly tagged otherwise belongs to it
	subs := make([]*opcua.Subscription, r.Subs)
	for si := 0; si < r.Subs; si++ {
		ch := make(chan *opcua.PublishNotificationData, 4096)
		sub, err := cl.Subscribe(ctx, &opcua.SubscriptionParameters{Interval: time.Duration(r.IntervalMs) * time.Millisecond, MaxKeepAliveCount: 3, LifetimeCount: 1000}, ch)
		if err != nil {
			s.Fail("HARNESS", "setup", "subscribe", "%v", err)
			return
		}
		subs[si] = sub
		var items []*ua.MonitoredItemCreateRequest
		for k := 0; k < r.ItemsPerSub; k++ {
			n := si*r.ItemsPerSub + k
			items = append(items, opcua.NewMonitoredItemCreateRequestWithDefaults(r.e.nodeID(fmt.Sprintf("n%d", n)), ua.AttributeIDValue, uint32(n)))
		}
		// the items of one subscription are added in one call, or one by one with
		// different TimestampsToReturn settings (the client keeps them in separate groups)
		if r.MixedTimestamps {
			for k, it := range items {
				ts := []ua.TimestampsToReturn{ua.TimestampsToReturnBoth, ua.TimestampsToReturnSource, ua.TimestampsToReturnServer, ua.TimestampsToReturnNeither}[(si+k)%4]
				if _, err := sub.Monitor(ctx, ts, it); err != nil {
					s.Fail("HARNESS", "setup", "monitor", "%v", err)
					return
				}
			}
		} else if _, err := sub.Monitor(ctx, ua.TimestampsToReturnBoth, items...); err != nil {
			s.Fail("HARNESS", "setup", "monitor", "%v", err)
			return
		}
		r.got[si] = map[int32]bool{}
		go func(si int) {
			for m := range ch {
				if m.Error != nil {
					s.Probe("notif-error")
					continue
				}
				if dcn, ok := m.Value.(*ua.DataChangeNotification); ok {
					for _, it := range dcn.MonitoredItems {
						if it.Value != nil && it.Value.Value != nil {
							if v, ok := it.Value.Value.Value().(int32); ok {
								r.mu.Lock()
								r.got[si][v] = true
								r.mu.Unlock()
							}
						}
					}
				}
			}
		}(si)
	}
	// faults
	for _, f := range r.Faults {
		f := f
		s.AddAction(&sim.Action{Name: "fault-" + f.Kind, At: time.Duration(f.AtMs) * time.Millisecond, Do: func() { r.apply(f) }})
	}
	// a writer keeps the nodes changing during the fault phase (fresh client per write burst)
	seq := int32(0)
	writeAll := func() bool {
		tagMu.Lock()
		tagNext = "writer"
		tagMu.Unlock()
		defer func() { tagMu.Lock(); tagNext = "monitored"; tagMu.Unlock() }()
		w, err := newClient(opcua.AutoReconnect(false), opcua.RequestTimeout(reqTO), opcua.DialTimeout(2*time.Second))
		if err != nil {
			return false
		}
		wctx, cancel := context.WithTimeout(ctx, 3*reqTO)
		defer cancel()
		if w.Connect(wctx) != nil {
			return false
		}
		defer w.Close(ctx)
		seq++
		ok := true
		for n := 0; n < r.nodes(); n++ {
			res, err := w.Write(wctx, writeReq(r.e.nodeID(fmt.Sprintf("n%d", n)), int32(n*c28Mul)+seq))
			if err != nil || res.Results[0] != ua.StatusOK {
				ok = false
			}
		}
		return ok
	}
	for s.Now() < c26FaultPhase {
		writeAll()
		time.Sleep(700 * time.Millisecond)
	}
	bound := 2*time.Second + 3*recon + 8*reqTO + 2*time.Second
	for s.Now() < r.lastFault+bound {
		time.Sleep(r.lastFault + bound - s.Now() + time.Millisecond)
	}
	if len(r.Faults) > 0 {
		s.Nontrivial()
	}
	if st := cl.State(); st != opcua.Connected {
		// C25's business; here it only means the subscription check cannot be made
		s.Probe("not-connected-after-faults")
		s.Teardown()
		cl.Close(ctx)
		return
	}
	// after recovery: fresh values are written to every node in four rounds;
	// every item of every subscription must deliver at least one of them
	// (a single notification may be lost to a PublishRequest the server still
	// holds from before the fault; the subscription as such must be alive)
	firstSeq := seq + 1
	for round := 0; round < 4; round++ {
		okw := false
		for try := 0; try < 3 && !okw; try++ {
			okw = writeAll()
		}
		if !okw {
			s.Probe("post-recovery-write-failed")
		}
		time.Sleep(time.Duration(3*r.IntervalMs)*time.Millisecond + time.Second)
	}
	time.Sleep(time.Duration(5*r.IntervalMs)*time.Millisecond + 2*reqTO)
	for si := range subs {
		for k := 0; k < r.ItemsPerSub; k++ {
			n := si*r.ItemsPerSub + k
			want := int32(n*c28Mul) + seq
			r.mu.Lock()
			ok := false
			all := true
			for q := firstSeq; q <= seq; q++ {
				if r.got[si][int32(n*c28Mul)+q] {
					ok = true
				} else {
					all = false
				}
			}
			r.mu.Unlock()
			if ok && !all {
				s.Probe("post-recovery-notification-lost")
			}
			if !ok {
				hint := "unexplained"
				switch {
				case s.Label("client.registerSubscription.alreadyRegistered") > 0:
					hint = "recreated-id-collides-with-registered-subscription"
				case s.Label("client.monitor.noSubscriptionsToResume") > 0:
					hint = "not-resumed-after-reconnect"
				case publishLoopPaused(cl):
					hint = "publish-loop-paused"
				}
				s.Fail("C26", "subscription-dead-after-reconnect", hint, "subscription %d (item on node n%d) did not deliver the value %d written %v after the last fault ended; client state %v, %s; faults %+v",
					si, n, want, s.Now()-r.lastFault, cl.State(), hint, r.Faults)
				return
			}
		}
	}
	s.Probe("subscriptions-alive-after-faults")
	r.checkAcks(s)
	s.Teardown()
	cl.Close(ctx)
	r.e.cancel()
}

// checkAcks: every notification with data that the client received in
// answer to one of its own PublishRequests is acknowledged in exactly one
// PublishRequest, as far as the client can know:
//   - it is never acknowledged again in a request written after the response
//     to an earlier acknowledging request has arrived (an acknowledgement
//     whose request got no answer may legitimately be repeated);
//   - it is acknowledged at all, provided at least three PublishRequests
//     reached the server after the receipt and before the client deleted
//     that subscription.
//
// Subscription ids and sequence numbers restart when a subscription is
// recreated, so a second receipt of the same (id, sequence number) opens a
// new obligation.
func (r *c26Run) checkAcks(s *sim.Sim) {
	r.mu.Lock()
	evs := append([]c26Ev(nil), r.evs...)
	r.mu.Unlock()
	sort.Slice(evs, func(i, j int) bool { return evs[i].at < evs[j].at })
	type hk struct {
		conn   int
		handle uint32
	}
	written := map[hk]time.Duration{}
	// a response only counts as seen by the client if it arrives before the
	// client's own time-out for that request can have fired
	keep := time.Duration(3*r.IntervalMs) * time.Millisecond
	pubTO := time.Duration(r.RequestMs) * time.Millisecond
	if keep > pubTO {
		pubTO = keep
	}
	answered := map[hk]bool{}
	inTime := func(ev c26Ev) bool {
		k := hk{ev.conn, ev.handle}
		t0, ok := written[k]
		if ok && answered[k] {
			return false // a second answer to the same request has no handler any more
		}
		if ok {
			answered[k] = true
		}
		return ok && ev.t-t0 < pubTO-50*time.Millisecond
	}
	type st struct {
		open      bool // received, not yet acknowledged
		confirmed bool // an acknowledging request was answered
		chances   int
		deleted   bool
		pending   []hk // acknowledging requests still unanswered
	}
	keys := map[[2]uint32]*st{}
	get := func(k [2]uint32) *st {
		if keys[k] == nil {
			keys[k] = &st{}
		}
		return keys[k]
	}
	for _, ev := range evs {
		if r.firstFaultEv != 0 && ev.at > r.firstFaultEv {
			// after a fault the gopcua server may answer PublishRequests it
			// still holds from the dead channel, whose request ids collide with
			// new ones: which response the client took for which request can no
			// longer be told from the wire. The acknowledgement check covers the
			// history up to the first fault (and fault-free runs entirely).
			break
		}
		switch ev.kind {
		case "reqw":
			written[hk{ev.conn, ev.handle}] = ev.t
			for _, a := range ev.acks {
				v := keys[a]
				if v == nil {
					continue
				}
				if v.confirmed && !v.open {
					s.Fail("C26", "ack", "acknowledged-again-after-confirmation", "notification sub=%d seq=%d is acknowledged again (request handle %d) although the answer to an earlier acknowledging PublishRequest had already arrived", a[0], a[1], ev.handle)
					return
				}
				v.pending = append(v.pending, hk{ev.conn, ev.handle})
				v.open = false
			}
		case "resp":
			// answers confirm the acknowledgements their request carried
			if !inTime(ev) {
				if ev.hasNd {
					s.Probe("late-or-unsolicited-publish-response")
				}
				continue
			}
			for _, v := range keys {
				for _, p := range v.pending {
					if p == (hk{ev.conn, ev.handle}) {
						v.confirmed = true
					}
				}
			}
			if !ev.hasNd {
				continue
			}
			v := get([2]uint32{ev.sub, ev.seq})
			v.open, v.confirmed, v.chances, v.deleted, v.pending = true, false, 0, false, nil
		case "del":
			for k, v := range keys {
				if k[0] == ev.sub {
					v.deleted = true
				}
			}
		case "req":
			for _, v := range keys {
				if v.open && !v.deleted {
					v.chances++
				}
			}
		}
	}
	for k, v := range keys {
		if v.open && v.chances >= 3 {
			s.Fail("C26", "ack", "never-acknowledged", "notification sub=%d seq=%d was received but not acknowledged although %d later PublishRequests reached the server before the subscription was deleted", k[0], k[1], v.chances)
			return
		}
		if !v.open {
			s.Probe("acked")
		}
	}
}

func (r *c26Run) Finish(s *sim.Sim) {}

func init() {
	Register(&Scenario{Name: "c26", Props: []string{"C26"}, Horizon: 30 * time.Minute, MaxSteps: 800000, New: func() Run { return &c26Run{} }, StuckProperty: "C26"})
}
