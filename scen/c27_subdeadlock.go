//go:build verif

package scen

import (
	"context"
	"fmt"
	"sort"
	"strings"
	"sync"
	"time"

	"github.com/gopcua/opcua"
	"github.com/gopcua/opcua/ua"

	"verif/refcodec"
	"verif/sim"
)

// C27: subscription API calls and the publish loop never deadlock.

type c27Op struct {
	Kind string `json:"k"` // subscribe cancel forget forget-unknown monitor sleep rst
	Idx  int    `json:"i"`
	Ms   int    `json:"ms,omitempty"`
}

type c27Run struct {
	Workers    [][]c27Op `json:"workers"`
	IntervalMs int       `json:"interval_ms"`
	KeepAlive  uint32    `json:"keepalive"`
	RequestMs  int       `json:"request_timeout_ms"`
	Rst        bool      `json:"rst"`

	mu       sync.Mutex
	subs     []*opcua.Subscription
	publish  int    // PublishRequests seen on the wire
	lastHint uint32 // TimeoutHint of the last PublishRequest
	inflight map[string]time.Duration
}

func (r *c27Run) Sample() any { return r }

func (r *c27Run) Setup(s *sim.Sim) {
	p := s.Plan
	s.DrawPolicy()
	r.IntervalMs = sim.Pick(p, 20, 50, 100)
	r.KeepAlive = sim.Pick(p, uint32(2), 5, 20)
	r.RequestMs = sim.Pick(p, 1000, 3000)
	r.Rst = p.Chance(1, 4)
	nw := 1 + p.Intn(4)
	total := 4 + p.Intn(28)
	r.Workers = make([][]c27Op, nw)
	for i := 0; i < total; i++ {
		w := p.Intn(nw)
		var op c27Op
		switch p.Intn(10) {
		case 0, 1, 2:
			op = c27Op{Kind: "subscribe"}
		case 3, 4:
			op = c27Op{Kind: "cancel", Idx: p.Intn(8)}
		case 5:
			op = c27Op{Kind: "forget", Idx: p.Intn(8)}
		case 6:
			op = c27Op{Kind: "forget-unknown", Idx: 1000 + p.Intn(4)}
		case 7:
			op = c27Op{Kind: "monitor", Idx: p.Intn(8)}
		default:
			op = c27Op{Kind: "sleep", Ms: sim.Pick(p, 1, 10, 50, 300)}
		}
		r.Workers[w] = append(r.Workers[w], op)
	}
	if r.Rst {
		w := p.Intn(nw)
		at := p.Intn(len(r.Workers[w]) + 1)
		ops := append([]c27Op{}, r.Workers[w][:at]...)
		ops = append(ops, c27Op{Kind: "rst"})
		r.Workers[w] = append(ops, r.Workers[w][at:]...)
	}
}

func (r *c27Run) Main(s *sim.Sim) {
	e, err := startServer(s, func(e *env) { e.ns.AddNewVariableStringNode("x", int32(5)) })
	if err != nil {
		s.Fail("HARNESS", "setup", "server", "%v", err)
		return
	}
	defer e.stop()
	r.inflight = map[string]time.Duration{}
	s.Net.OnConn = func(c *sim.Conn) {
		wireLog(s, c)
		c.C2S.Observers = append(c.C2S.Observers, func(fr []byte) {
			if id, ok := refcodec.ServiceTypeID(fr); ok && id == 826 { // PublishRequest
				r.mu.Lock()
				r.publish++
				if svc, ok := decodeNone(fr); ok {
					if pq, ok := svc.(*ua.PublishRequest); ok {
						r.lastHint = pq.RequestHeader.TimeoutHint
					}
				}
				r.mu.Unlock()
			}
		})
	}
	ctx := context.Background() // on purpose: cancellation must not be what unblocks a call
	cl, err := newClient(opcua.AutoReconnect(true), opcua.ReconnectInterval(200*time.Millisecond), opcua.RequestTimeout(time.Duration(r.RequestMs)*time.Millisecond))
	if err == nil {
		err = cl.Connect(ctx)
	}
	if err != nil {
		s.Fail("HARNESS", "setup", "connect", "%v", err)
		return
	}
	notifs := make(chan *opcua.PublishNotificationData, 64)
	drainDone := make(chan struct{})
	go func() { // the application always drains its notification channel
		for {
			select {
			case <-notifs:
			case <-drainDone:
				return
			}
		}
	}()
	defer close(drainDone)

	var wg sync.WaitGroup
	for wi, ops := range r.Workers {
		wg.Add(1)
		go func(wi int, ops []c27Op) {
			defer wg.Done()
			for oi, op := range ops {
				key := fmt.Sprintf("w%d.%d %s", wi, oi, op.Kind)
				r.mu.Lock()
				r.inflight[key] = s.Now()
				var sub *opcua.Subscription
				if len(r.subs) > 0 {
					sub = r.subs[op.Idx%len(r.subs)]
				}
				r.mu.Unlock()
				switch op.Kind {
				case "subscribe":
					sb, err := cl.Subscribe(ctx, &opcua.SubscriptionParameters{Interval: time.Duration(r.IntervalMs) * time.Millisecond, MaxKeepAliveCount: r.KeepAlive, LifetimeCount: 10000}, notifs)
					if err == nil {
						r.mu.Lock()
						r.subs = append(r.subs, sb)
						r.mu.Unlock()
						s.Probe("subscribed")
					} else {
						s.Probe("subscribe-error")
					}
				case "cancel":
					if sub != nil {
						sub.Cancel(ctx)
						s.Probe("cancelled")
					}
				case "forget":
					if sub != nil {
						cl.ForgetSubscription(ctx, sub.SubscriptionID)
						s.Probe("forgotten")
					}
				case "forget-unknown":
					cl.ForgetSubscription(ctx, uint32(op.Idx))
					s.Probe("forgot-unknown")
				case "monitor":
					if sub != nil {
						sub.Monitor(ctx, ua.TimestampsToReturnBoth, opcua.NewMonitoredItemCreateRequestWithDefaults(e.nodeID("x"), ua.AttributeIDValue, uint32(op.Idx)))
					}
				case "sleep":
					time.Sleep(time.Duration(op.Ms) * time.Millisecond)
				case "rst":
					s.Yield("c27.rst")
					for _, c := range s.Net.Conns() {
						if !c.Dead() {
							c.Reset()
							s.Fault("rst")
						}
					}
				}
				r.mu.Lock()
				delete(r.inflight, key)
				r.mu.Unlock()
			}
		}(wi, ops)
	}
	allDone := make(chan struct{})
	go func() { wg.Wait(); close(allDone) }()
	reqTO := time.Duration(r.RequestMs) * time.Millisecond
	// every call must come back: the longest legitimate wait is a handful of
	// request time-outs (a call issued while the connection is being re-established)
	budget := 30*time.Second + 20*reqTO
	select {
	case <-allDone:
	case <-time.After(budget):
		r.mu.Lock()
		var stuck []string
		for k, t0 := range r.inflight {
			stuck = append(stuck, fmt.Sprintf("%s (since %v)", k, t0))
		}
		r.mu.Unlock()
		s.Fail("C27", "api-call-stuck", stuckCallSig(), "API calls did not return within %v: %v\n%s", budget, stuck, clientStacks())
		return
	}
	s.Nontrivial()
	// progress of the publish loop while a subscription is registered
	// SubscriptionIDs needs subMux itself: if a background goroutine of the client (the
	// reconnect monitor forgetting a subscription, the publish loop) sits on that lock
	// for good, this call - an API call like any other - never returns either
	subIDs := func() (int, bool) {
		ch := make(chan int, 1)
		go func() { ch <- len(cl.SubscriptionIDs()) }()
		select {
		case n := <-ch:
			return n, true
		case <-time.After(budget):
			return 0, false
		}
	}
	live, okIDs := subIDs()
	if !okIDs {
		s.Fail("C27", "api-call-stuck", stuckCallSig(), "SubscriptionIDs did not return within %v after all other calls had returned\n%s", budget, clientStacks())
		return
	}
	if live > 0 && cl.State() == opcua.Connected {
		keep := time.Duration(r.KeepAlive+1) * time.Duration(r.IntervalMs) * time.Millisecond
		window := 3*keep + 2*reqTO + 2*time.Second
		r.mu.Lock()
		before := r.publish
		r.mu.Unlock()
		time.Sleep(window)
		r.mu.Lock()
		after := r.publish
		r.mu.Unlock()
		nowLive, okIDs := subIDs()
		if !okIDs {
			s.Fail("C27", "api-call-stuck", stuckCallSig(), "SubscriptionIDs did not return within %v\n%s", budget, clientStacks())
			return
		}
		if after == before && nowLive > 0 && cl.State() == opcua.Connected {
			hint := "running"
			r.mu.Lock()
			noTimeout := r.lastHint == 0xffffffff
			r.mu.Unlock()
			if publishLoopPaused(cl) {
				hint = "paused"
			} else if noTimeout {
				hint = "waiting-for-a-request-sent-without-timeout"
			}
			s.Fail("C27", "publish-loop-stalled", "no-publish-requests:"+hint, "%d subscriptions are registered and the client is Connected but no PublishRequest was sent for %v (publish loop %s)\n%s\n---- all goroutines ----\n%s", live, window, hint, clientStacks(), serverStacks())
			return
		}
		s.Probe("publish-progress")
	}
	s.Teardown()
	closeDone := make(chan struct{})
	go func() { cl.Close(ctx); close(closeDone) }()
	select {
	case <-closeDone:
	case <-time.After(budget):
		s.Fail("C27", "api-call-stuck", "Close:"+stuckCallSig(), "Close did not return within %v\n%s", budget, clientStacks())
	}
}

// stuckCallSig names the API functions that are blocked and what they wait for.
func stuckCallSig() string {
	seen := map[string]bool{}
	var out []string
	loopWaitsForLock := false
	for _, g := range strings.Split(sim.GoroutineDump(), "\n\n") {
		if !strings.Contains(g, "verif/scen.(*c27Run).Main") && !clientFrameRe.MatchString(g) {
			continue
		}
		if strings.Contains(g, "scheduleRenewal") || strings.Contains(g, "scheduleExpiration") || strings.Contains(g, ".dispatcher(") {
			continue
		}
		hdr, _, _ := strings.Cut(g, "\n")
		wait := "?"
		switch {
		case strings.Contains(hdr, "chan send"):
			wait = "chan-send"
		case strings.Contains(hdr, "chan receive"):
			wait = "chan-recv"
		case strings.Contains(hdr, "select"):
			wait = "select"
		case strings.Contains(hdr, "sleep"):
			continue
		}
		if strings.Contains(g, "simhook.(*RWMutex)") || strings.Contains(g, "simhook.(*Mutex)") {
			if strings.Contains(g, ".(*Client).publish(") || strings.Contains(g, ".(*Client).monitorSubscriptions") {
				loopWaitsForLock = true
			}
			continue // waits for a lock held by one of the root causes below
		}
		var k string
		switch {
		case strings.Contains(g, ".(*Client).pauseSubscriptions"):
			k = "send-on-full-pausech"
			switch {
			case strings.Contains(g, "forgetSubscription_NeedsSubMuxLock"):
				k += "-while-holding-subMux"
			case strings.Contains(g, ".(*Client).monitorSubscriptions"):
				k += "-by-the-publish-loop-itself"
			}
		case wait == "chan-send" && strings.Contains(g, ".(*Client).Subscribe("):
			k = "send-on-full-resumech"
		case strings.Contains(g, ".(*Client).resumeSubscriptions"):
			k = "send-on-full-resumech-by-monitor"
		case strings.Contains(g, ".(*Client).monitorSubscriptions") || (strings.Contains(g, ".(*Client).monitor(") && wait == "select" && !strings.Contains(g, "Subscription")):
			continue // idle background loops
		default:
			fns := leakFnRe.FindAllString(g, 3)
			if len(fns) == 0 {
				continue
			}
			var short []string
			for _, f := range fns {
				short = append(short, strings.TrimPrefix(f, "github.com/gopcua/opcua"))
			}
			k = wait + ":" + strings.Join(short, "<")
		}
		if !seen[k] {
			seen[k] = true
			out = append(out, k)
		}
	}
	// the publish loop waits for subMux: in the catalogued deadlock the holder is a
	// forget that sends on the full pausech; if no such holder is among the blocked
	// goroutines, somebody else sits on the lock while blocked (a different defect)
	if loopWaitsForLock && !seen["send-on-full-pausech-while-holding-subMux"] {
		out = append(out, "publish-loop-waits-for-subMux-held-by-a-blocked-call-other-than-forget")
	}
	sort.Strings(out)
	if len(out) > 3 {
		out = out[:3]
	}
	return strings.Join(out, ";")
}

func (r *c27Run) Finish(s *sim.Sim) {}

func init() {
	Register(&Scenario{Name: "c27", Props: []string{"C27"}, Horizon: 30 * time.Minute, MaxSteps: 600000, New: func() Run { return &c27Run{} }, StuckProperty: "C27"})
}
