//go:build verif

package scen

import (
	"context"
	"fmt"
	"os"
	"strings"
	"sync"
	"time"

	"github.com/gopcua/opcua"
	"github.com/gopcua/opcua/monitor"
	"github.com/gopcua/opcua/ua"

	"verif/sim"
)

// C28: monitor notifications name the right node and converge to the latest value.

type c28Step struct {
	Kind   string `json:"k"` // write add remove sleep
	Writer int    `json:"w,omitempty"`
	Node   int    `json:"n"`
	Ms     int    `json:"ms,omitempty"`
}

type c28Run struct {
	Nodes      int       `json:"nodes"`
	Writers    int       `json:"writers"`
	IntervalMs int       `json:"interval_ms"`
	Callback   bool      `json:"callback"`
	Initial    []int     `json:"initial_nodes"`
	Steps      []c28Step `json:"steps"`
	Latency    string    `json:"latency"`
	lat        time.Duration
}

func (r *c28Run) Sample() any { return r }

func (r *c28Run) Setup(s *sim.Sim) {
	p := s.Plan
	s.DrawPolicy()
	r.Nodes = 2 + p.Intn(5)
	r.Writers = 1 + p.Intn(3)
	r.IntervalMs = sim.Pick(p, 50, 100, 200, 500)
	r.Callback = p.Bool()
	r.lat = sim.Pick(p, 0, time.Millisecond, 5*time.Millisecond)
	r.Latency = r.lat.String()
	// slow server goroutines: the notification fan-out (ChangeNotification) is held
	// for a while right before it hands a sampled value to the subscription
	if p.Intn(2) == 0 {
		s.SlowPermille = sim.Pick(p, 30, 100, 300)
		s.SlowMax = 6
		s.SlowDurs = []time.Duration{time.Millisecond, 20 * time.Millisecond, 200 * time.Millisecond}
		s.SlowMatch = func(label string) bool {
			// (holding the dispatcher itself makes PublishResponses late, which drives the client
			// into the catalogued pause-after-failed-publish finding in most runs)
			return strings.HasPrefix(label, "send:server.ChangeNotification")
		}
	}
	for i := 0; i < r.Nodes; i++ {
		if p.Intn(3) != 0 {
			r.Initial = append(r.Initial, i)
		}
	}
	n := 10 + p.Intn(50)
	for i := 0; i < n; i++ {
		switch p.Intn(12) {
		case 0:
			r.Steps = append(r.Steps, c28Step{Kind: "add", Node: p.Intn(r.Nodes)})
		case 1:
			r.Steps = append(r.Steps, c28Step{Kind: "remove", Node: p.Intn(r.Nodes)})
		case 2:
			r.Steps = append(r.Steps, c28Step{Kind: "sleep", Ms: sim.Pick(p, 1, 10, 60, 250)})
		case 3:
			if p.Intn(2) == 0 {
				// the answer to the CreateMonitoredItems request is held back beyond the caller's deadline
				r.Steps = append(r.Steps, c28Step{Kind: "add-late-response", Node: p.Intn(r.Nodes), Ms: sim.Pick(p, 30, 80, 200)})
			} else {
				r.Steps = append(r.Steps, c28Step{Kind: "write", Writer: p.Intn(r.Writers), Node: p.Intn(r.Nodes)})
			}
		default:
			r.Steps = append(r.Steps, c28Step{Kind: "write", Writer: p.Intn(r.Writers), Node: p.Intn(r.Nodes)})
		}
	}
}

const c28Mul = 1000000

func (r *c28Run) Main(s *sim.Sim) {
	e, err := startServer(s, func(e *env) {
		for i := 0; i < r.Nodes; i++ {
			e.ns.AddNewVariableStringNode(fmt.Sprintf("n%d", i), int32(i*c28Mul))
		}
	})
	if err != nil {
		s.Fail("HARNESS", "setup", "server", "%v", err)
		return
	}
	defer e.stop()
	s.Net.DefLatency = r.lat
	ctx := context.Background()
	nid := func(i int) *ua.NodeID { return e.nodeID(fmt.Sprintf("n%d", i)) }
	mc, err := newClient(opcua.AutoReconnect(false), opcua.RequestTimeout(10*time.Second))
	if err == nil {
		err = mc.Connect(ctx)
	}
	if err != nil {
		s.Fail("HARNESS", "setup", "connect", "%v", err)
		return
	}
	defer mc.Close(ctx)
	nm, _ := monitor.NewNodeMonitor(mc)
	var asyncErrs []string
	var mu sync.Mutex
	nm.SetErrorHandler(func(_ *opcua.Client, _ *monitor.Subscription, err error) {
		mu.Lock()
		asyncErrs = append(asyncErrs, err.Error())
		mu.Unlock()
	})
	last := map[string]int32{}
	var order []string
	handle := func(m *monitor.DataChangeMessage) {
		if m.Error != nil {
			s.Probe("message-with-error")
			return
		}
		if m.DataValue == nil || m.Value == nil {
			return
		}
		v, ok := m.Value.Value().(int32)
		if !ok {
			s.Fail("C28", "wrong-type", "value-type", "delivered value %T", m.Value.Value())
			return
		}
		node := int(v / c28Mul)
		if m.NodeID == nil || m.NodeID.String() != nid(node).String() {
			s.Fail("C28", "wrong-node", "nodeid-does-not-match-value", "message names node %v but carries value %d which belongs to node %v", m.NodeID, v, nid(node))
			return
		}
		mu.Lock()
		last[m.NodeID.String()] = v
		order = append(order, fmt.Sprintf("%s=%d", m.NodeID.StringID(), v))
		mu.Unlock()
		s.Probe("delivered")
	}
	params := &opcua.SubscriptionParameters{Interval: time.Duration(r.IntervalMs) * time.Millisecond}
	var sub *monitor.Subscription
	var initial []string
	for _, i := range r.Initial {
		initial = append(initial, nid(i).String())
	}
	ch := make(chan *monitor.DataChangeMessage, 100000)
	consumerDone := make(chan struct{})
	defer close(consumerDone)
	if r.Callback {
		sub, err = nm.Subscribe(ctx, params, func(_ *monitor.Subscription, m *monitor.DataChangeMessage) { handle(m) }, initial...)
	} else {
		sub, err = nm.ChanSubscribe(ctx, params, ch, initial...)
		go func() {
			for {
				select {
				case m := <-ch:
					handle(m)
				case <-consumerDone:
					return
				}
			}
		}()
	}
	if err != nil {
		s.Fail("C28", "subscribe-failed", "subscribe", "%v", err)
		return
	}
	monitored := map[int]bool{}
	maybe := map[int]bool{}
	for _, i := range r.Initial {
		monitored[i] = true
	}
	var writers []*opcua.Client
	for i := 0; i < r.Writers; i++ {
		w, err := newClient(opcua.AutoReconnect(false), opcua.RequestTimeout(10*time.Second))
		if err == nil {
			err = w.Connect(ctx)
		}
		if err != nil {
			s.Fail("HARNESS", "setup", "writer", "%v", err)
			return
		}
		defer w.Close(ctx)
		writers = append(writers, w)
	}
	seq := make([]int32, r.Nodes)
	var wg sync.WaitGroup
	for _, st := range r.Steps {
		switch st.Kind {
		case "write":
			seq[st.Node]++
			v := int32(st.Node*c28Mul) + seq[st.Node]
			w := writers[st.Writer]
			wg.Add(1)
			go func() { // writes of different writers overlap
				defer wg.Done()
				if res, err := w.Write(ctx, writeReq(nid(st.Node), v)); err != nil || res.Results[0] != ua.StatusOK {
					s.Fail("HARNESS", "write", "write-failed", "%v", err)
				}
			}()
			if st.Writer == 0 {
				wg.Wait()
			}
		case "add":
			if !monitored[st.Node] && !maybe[st.Node] {
				if err := sub.AddNodeIDs(ctx, nid(st.Node)); err != nil {
					s.Fail("C28", "add-failed", "add", "AddNodeIDs(%v): %v", nid(st.Node), err)
					return
				}
				monitored[st.Node] = true
				s.Probe("node-added")
				s.Nontrivial()
			}
		case "add-late-response":
			if !monitored[st.Node] && !maybe[st.Node] {
				conns := s.Net.Conns()
				if len(conns) == 0 {
					break
				}
				mine := conns[0] // the monitoring client connected first
				mine.S2C.StallUntil = s.Now() + time.Duration(st.Ms)*time.Millisecond
				s.Fault("stall")
				actx, cancel := context.WithTimeout(ctx, time.Duration(st.Ms/3)*time.Millisecond)
				err := sub.AddNodeIDs(actx, nid(st.Node))
				cancel()
				if err == nil {
					monitored[st.Node] = true
					s.Probe("node-added")
				} else {
					// the server may well have created the item: the node is neither required
					// to converge nor forbidden to deliver; what it delivers must still be its own
					maybe[st.Node] = true
					s.Probe("add-timed-out")
				}
				s.Nontrivial()
				time.Sleep(time.Duration(st.Ms) * time.Millisecond)
			}
		case "remove":
			if monitored[st.Node] {
				if err := sub.RemoveNodeIDs(ctx, nid(st.Node)); err != nil {
					s.Fail("C28", "remove-failed", "remove", "RemoveNodeIDs(%v): %v", nid(st.Node), err)
					return
				}
				delete(monitored, st.Node)
				s.Probe("node-removed")
				s.Nontrivial()
			}
		case "sleep":
			time.Sleep(time.Duration(st.Ms) * time.Millisecond)
		}
		if s.Failed() {
			return
		}
	}
	wg.Wait()
	// quiescence: three publishing intervals plus slack
	time.Sleep(time.Duration(4*r.IntervalMs)*time.Millisecond + 2*time.Second)
	if sub.Dropped() > 0 {
		s.Probe("dropped-by-slow-consumer")
	} else {
		for i := range monitored {
			res, err := mc.Read(ctx, readReq(nid(i)))
			if err != nil || len(res.Results) != 1 || res.Results[0].Value == nil {
				s.Fail("HARNESS", "read", "read-failed", "%v", err)
				return
			}
			cur := res.Results[0].Value.Value().(int32)
			mu.Lock()
			got, ok := last[nid(i).String()]
			hist := fmt.Sprint(order)
			errs := fmt.Sprint(asyncErrs)
			mu.Unlock()
			if len(hist) > 1500 {
				hist = "..." + hist[len(hist)-1500:]
			}
			if os.Getenv("DBG_C28") != "" && publishLoopPaused(mc) {
				fmt.Fprintf(os.Stderr, "DBG paused: pause-calls=%d resume-calls=%d steps=%v removes/adds in plan: %v\n%s\n", s.Label("client.pauseSubscriptions"), s.Label("client.resumeSubscriptions"), len(r.Steps), r.Initial, clientStacks())
			}
			if publishLoopPaused(mc) {
				s.Fail("C28", "no-convergence", "publish-loop-paused-with-live-subscription", "node n%d is monitored and holds %d, last delivered %d (known=%v): the client's publish loop sits in its paused state although a subscription exists; deliveries %s", i, cur, got, ok, hist)
				return
			}
			if !ok {
				s.Fail("C28", "no-convergence", "nothing-delivered", "node n%d is monitored and holds %d but no value was ever delivered for it; async errors %s; deliveries %s", i, cur, errs, hist)
				return
			}
			if got != cur {
				s.Fail("C28", "no-convergence", "stale-last-value", "node n%d holds %d on the server but the last delivered value is %d (%v after the last write); async errors %s; deliveries %s", i, cur, got, time.Duration(4*r.IntervalMs)*time.Millisecond+2*time.Second, errs, hist)
				return
			}
			s.Probe("converged")
		}
	}
	s.Teardown()
	sub.Unsubscribe(ctx)
}

func (r *c28Run) Finish(s *sim.Sim) {}

func init() {
	Register(&Scenario{Name: "c28", Props: []string{"C28"}, Horizon: 10 * time.Minute, MaxSteps: 600000, New: func() Run { return &c28Run{} }, StuckProperty: "C28"})
}
