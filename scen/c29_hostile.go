//go:build verif

package scen

import (
	"context"
	"encoding/binary"
	"fmt"
	"math"
	"strings"
	"sync"
	"time"

	"github.com/gopcua/opcua"
	"github.com/gopcua/opcua/id"
	"github.com/gopcua/opcua/server"
	"github.com/gopcua/opcua/ua"

	"verif/refcodec"
	"verif/sim"
)

// C29: no client can crash or hang the server.
//
// A canary client issues reads with a generous deadline while hostile
// clients send generated requests of every registered service type, raw
// garbage, resets during the handshake, or stop reading.

type c29Op struct {
	Client int    `json:"c"`           // hostile client index
	Kind   string `json:"k"`           // request kind
	A      int    `json:"a,omitempty"` // variant selectors
	B      int    `json:"b,omitempty"`
}

type c29Run struct {
	Hostile   int     `json:"hostile"`
	NoSession []bool  `json:"no_session"` // hostile client i only opens a secure channel
	Ops       []c29Op `json:"ops"`
	Raw       []int   `json:"raw"` // raw peers: kind of misbehaviour
	NoReader  bool    `json:"noreader"`
	Avoid     bool    `json:"avoid"` // do not generate request shapes listed as open known findings
}

func (r *c29Run) Sample() any { return r }

var c29Kinds = []string{
	"read", "write", "browse", "createsub", "deletesub", "createitems", "deleteitems", "setmode",
	"publish", "republish", "transfer", "modifysub", "setpublishing", "modifyitems", "settriggering",
	"translate", "registernodes", "unregisternodes", "call", "addnodes", "addrefs", "deletenodes", "deleterefs",
	"queryfirst", "querynext", "historyread", "historyupdate", "closesession", "cancel", "activate", "createsession",
	"findservers", "getendpoints", "browsenext", "registerserver",
}

func (r *c29Run) Setup(s *sim.Sim) {
	p := s.Plan
	s.DrawPolicy()
	r.Hostile = 1 + p.Intn(3)
	for i := 0; i < r.Hostile; i++ {
		r.NoSession = append(r.NoSession, p.Chance(1, 4))
	}
	n := 5 + p.Intn(40)
	for i := 0; i < n; i++ {
		r.Ops = append(r.Ops, c29Op{Client: p.Intn(r.Hostile), Kind: c29Kinds[p.Intn(len(c29Kinds))], A: p.Intn(8), B: p.Intn(8)})
	}
	for i := 0; i < p.Intn(4); i++ {
		r.Raw = append(r.Raw, p.Intn(8))
	}
	r.NoReader = p.Chance(1, 6)
}

func c29Float(a int) float64 {
	return []float64{100, 0, -1, math.NaN(), math.Inf(1), 1e-9, 1e18, 50}[a%8]
}

func c29U32(a int) uint32 {
	return []uint32{1, 0, 2, 3, 0xffffffff, 1000, 77, 4}[a%8]
}

// request builds a request for the op. ids known to this client are in st.
func (r *c29Run) request(op c29Op, e *env, st *c29Client) ua.Request {
	node := e.nodeID("x")
	weird := []*ua.NodeID{node, ua.NewNumericNodeID(0, 0), ua.NewNumericNodeID(99, 1), ua.NewStringNodeID(e.ns.ID(), "nope"),
		ua.NewNumericNodeID(0, id.Server), ua.NewStringNodeID(2, "m"), ua.NewGUIDNodeID(1, "00000000-0000-0000-0000-000000000000"), ua.NewByteStringNodeID(1, []byte{1})}
	nid := weird[op.A%8]
	subID := c29U32(op.B)
	if len(st.subs) > 0 && op.B%2 == 0 {
		subID = st.subs[op.B%len(st.subs)]
	}
	itemID := c29U32(op.A)
	if len(st.items) > 0 && op.A%2 == 0 {
		itemID = st.items[op.A%len(st.items)]
	}
	switch op.Kind {
	case "read":
		req := &ua.ReadRequest{MaxAge: c29Float(op.B), TimestampsToReturn: ua.TimestampsToReturn(op.B % 5)}
		for i := 0; i <= op.B%3; i++ {
			req.NodesToRead = append(req.NodesToRead, &ua.ReadValueID{NodeID: weird[(op.A+i)%8], AttributeID: ua.AttributeID(1 + (op.A*3+i*7)%27), DataEncoding: &ua.QualifiedName{}})
		}
		if op.B == 7 {
			req.NodesToRead = nil
		}
		return req
	case "write":
		var dv *ua.DataValue
		switch op.B % 4 {
		case 0:
			dv = &ua.DataValue{EncodingMask: ua.DataValueValue, Value: ua.MustVariant(int32(op.A))}
		case 1:
			dv = &ua.DataValue{} // no value at all
		case 2:
			dv = &ua.DataValue{EncodingMask: ua.DataValueValue, Value: ua.MustVariant("str")}
		default:
			dv = &ua.DataValue{EncodingMask: ua.DataValueStatusCode, Status: ua.StatusBad}
		}
		attr := []ua.AttributeID{ua.AttributeIDValue, ua.AttributeIDAccessLevel, ua.AttributeIDUserAccessLevel, ua.AttributeIDBrowseName, ua.AttributeIDDisplayName, ua.AttributeIDNodeClass, ua.AttributeIDDataType, 0}[op.B%8]
		return &ua.WriteRequest{NodesToWrite: []*ua.WriteValue{{NodeID: nid, AttributeID: attr, Value: dv}}}
	case "browse":
		ref := []*ua.NodeID{ua.NewNumericNodeID(0, id.References), ua.NewNumericNodeID(0, id.HierarchicalReferences), ua.NewNumericNodeID(0, 0), ua.NewNumericNodeID(0, id.HasComponent),
			ua.NewNumericNodeID(0, id.Organizes), ua.NewNumericNodeID(0, id.HasSubtype), ua.NewNumericNodeID(5, 5), ua.NewNumericNodeID(0, id.NonHierarchicalReferences)}[op.B%8]
		bn := []*ua.NodeID{ua.NewNumericNodeID(0, id.RootFolder), ua.NewNumericNodeID(0, id.ObjectsFolder), ua.NewNumericNodeID(0, id.Server), node, ua.NewNumericNodeID(0, id.TypesFolder), ua.NewNumericNodeID(0, id.BaseObjectType), ua.NewNumericNodeID(99, 1), ua.NewNumericNodeID(e.ns.ID(), id.ObjectsFolder)}[op.A%8]
		return &ua.BrowseRequest{View: &ua.ViewDescription{ViewID: ua.NewTwoByteNodeID(0)}, RequestedMaxReferencesPerNode: c29U32(op.A),
			NodesToBrowse: []*ua.BrowseDescription{{NodeID: bn, BrowseDirection: ua.BrowseDirection(op.B % 4), ReferenceTypeID: ref, IncludeSubtypes: op.A%2 == 0, NodeClassMask: uint32(op.A * 37), ResultMask: 0x3f}}}
	case "createsub":
		return &ua.CreateSubscriptionRequest{RequestedPublishingInterval: c29Float(op.A), RequestedLifetimeCount: c29U32(op.B), RequestedMaxKeepAliveCount: c29U32(op.A + 1), PublishingEnabled: op.A%2 == 0, MaxNotificationsPerPublish: c29U32(op.B + 2)}
	case "deletesub":
		return &ua.DeleteSubscriptionsRequest{SubscriptionIDs: []uint32{subID, c29U32(op.A)}}
	case "createitems":
		req := &ua.CreateMonitoredItemsRequest{SubscriptionID: subID, TimestampsToReturn: ua.TimestampsToReturnBoth}
		for i := 0; i <= op.A%3; i++ {
			req.ItemsToCreate = append(req.ItemsToCreate, &ua.MonitoredItemCreateRequest{
				ItemToMonitor:       &ua.ReadValueID{NodeID: weird[(op.A+i)%8], AttributeID: ua.AttributeIDValue, DataEncoding: &ua.QualifiedName{}},
				MonitoringMode:      ua.MonitoringModeReporting,
				RequestedParameters: &ua.MonitoringParameters{ClientHandle: uint32(op.A*10 + i), SamplingInterval: c29Float(op.B), QueueSize: c29U32(op.B), Filter: ua.NewExtensionObject(nil)},
			})
		}
		return req
	case "deleteitems":
		return &ua.DeleteMonitoredItemsRequest{SubscriptionID: subID, MonitoredItemIDs: []uint32{itemID, c29U32(op.B)}}
	case "setmode":
		return &ua.SetMonitoringModeRequest{SubscriptionID: subID, MonitoringMode: ua.MonitoringMode(op.A % 4), MonitoredItemIDs: []uint32{itemID, c29U32(op.B)}}
	case "publish":
		req := &ua.PublishRequest{SubscriptionAcknowledgements: []*ua.SubscriptionAcknowledgement{}}
		if op.A%2 == 0 {
			req.SubscriptionAcknowledgements = append(req.SubscriptionAcknowledgements, &ua.SubscriptionAcknowledgement{SubscriptionID: subID, SequenceNumber: c29U32(op.A)})
		}
		return req
	case "republish":
		return &ua.RepublishRequest{SubscriptionID: subID, RetransmitSequenceNumber: c29U32(op.A)}
	case "transfer":
		return &ua.TransferSubscriptionsRequest{SubscriptionIDs: []uint32{subID}, SendInitialValues: op.A%2 == 0}
	case "modifysub":
		return &ua.ModifySubscriptionRequest{SubscriptionID: subID, RequestedPublishingInterval: c29Float(op.A)}
	case "setpublishing":
		return &ua.SetPublishingModeRequest{PublishingEnabled: op.A%2 == 0, SubscriptionIDs: []uint32{subID}}
	case "modifyitems":
		return &ua.ModifyMonitoredItemsRequest{SubscriptionID: subID}
	case "settriggering":
		return &ua.SetTriggeringRequest{SubscriptionID: subID, TriggeringItemID: itemID}
	case "translate":
		return &ua.TranslateBrowsePathsToNodeIDsRequest{BrowsePaths: []*ua.BrowsePath{{StartingNode: nid, RelativePath: &ua.RelativePath{}}}}
	case "registernodes":
		return &ua.RegisterNodesRequest{NodesToRegister: []*ua.NodeID{nid}}
	case "unregisternodes":
		return &ua.UnregisterNodesRequest{NodesToUnregister: []*ua.NodeID{nid}}
	case "call":
		return &ua.CallRequest{MethodsToCall: []*ua.CallMethodRequest{{ObjectID: nid, MethodID: weird[op.B%8], InputArguments: []*ua.Variant{ua.MustVariant(int32(1))}}}}
	case "addnodes":
		return &ua.AddNodesRequest{NodesToAdd: []*ua.AddNodesItem{}}
	case "addrefs":
		return &ua.AddReferencesRequest{}
	case "deletenodes":
		return &ua.DeleteNodesRequest{NodesToDelete: []*ua.DeleteNodesItem{{NodeID: nid}}}
	case "deleterefs":
		return &ua.DeleteReferencesRequest{}
	case "queryfirst":
		return &ua.QueryFirstRequest{View: &ua.ViewDescription{ViewID: ua.NewTwoByteNodeID(0)}, Filter: &ua.ContentFilter{}}
	case "querynext":
		return &ua.QueryNextRequest{}
	case "historyread":
		return &ua.HistoryReadRequest{HistoryReadDetails: ua.NewExtensionObject(nil)}
	case "historyupdate":
		return &ua.HistoryUpdateRequest{}
	case "closesession":
		return &ua.CloseSessionRequest{DeleteSubscriptions: op.A%2 == 0}
	case "cancel":
		return &ua.CancelRequest{RequestHandle: c29U32(op.A)}
	case "activate":
		return &ua.ActivateSessionRequest{ClientSignature: &ua.SignatureData{}, UserIdentityToken: ua.NewExtensionObject(nil), UserTokenSignature: &ua.SignatureData{}}
	case "createsession":
		return &ua.CreateSessionRequest{ClientDescription: &ua.ApplicationDescription{ApplicationName: &ua.LocalizedText{}}, EndpointURL: []string{srvURL, "", "opc.tcp://other:1"}[op.A%3], SessionName: "h", ClientNonce: make([]byte, 32*(op.B%2)), RequestedSessionTimeout: c29Float(op.B)}
	case "findservers":
		return &ua.FindServersRequest{EndpointURL: srvURL}
	case "getendpoints":
		return &ua.GetEndpointsRequest{EndpointURL: srvURL}
	case "browsenext":
		return &ua.BrowseNextRequest{ContinuationPoints: [][]byte{{1, 2}}}
	case "registerserver":
		return &ua.RegisterServerRequest{Server: &ua.RegisteredServer{}}
	}
	return &ua.ReadRequest{}
}

type c29Client struct {
	c     *opcua.Client
	subs  []uint32
	items []uint32
}

// avoided reports whether the op is one of the request shapes catalogued as
// open known findings (only consulted when r.Avoid is set).
func (r *c29Run) avoided(op c29Op, st *c29Client, noSession bool) bool {
	return false
}

func (r *c29Run) Main(s *sim.Sim) {
	var mapns *server.MapNamespace
	e, err := startServer(s, func(e *env) {
		e.ns.AddNewVariableStringNode("x", int32(5))
		mapns = server.NewMapNamespace(e.srv, "map")
		mapns.Data["m"] = int32(0)
	})
	if err != nil {
		s.Fail("HARNESS", "setup", "server", "%v", err)
		return
	}
	defer e.stop()
	ctx := context.Background()

	// canary
	canary, err := newClient(opcua.AutoReconnect(false), opcua.RequestTimeout(5*time.Second))
	if err == nil {
		err = canary.Connect(ctx)
	}
	if err != nil {
		s.Fail("HARNESS", "setup", "canary", "%v", err)
		return
	}
	stop := make(chan struct{})
	var wg sync.WaitGroup
	canaryRead := func(tag string) bool {
		rctx, cancel := context.WithTimeout(ctx, 5*time.Second)
		defer cancel()
		t0 := s.Now()
		res, err := canary.Read(rctx, readReq(ua.NewNumericNodeID(0, id.Server_ServerStatus_State)))
		if err != nil || len(res.Results) != 1 || res.Results[0].Status != ua.StatusOK {
			s.Fail("C29", "canary", dispatcherSig(tag), "a well-behaved client's Read (%s) failed after %v: err=%v; hostile ops=%d raw=%v noreader=%v\n%s", tag, s.Now()-t0, err, len(r.Ops), r.Raw, r.NoReader, serverStacks())
			return false
		}
		s.Probe("canary-ok")
		return true
	}
	wg.Add(1)
	go func() {
		defer wg.Done()
		for {
			select {
			case <-stop:
				return
			case <-time.After(400 * time.Millisecond):
			}
			if !canaryRead("during") {
				return
			}
		}
	}()

	if r.NoReader {
		// a client that keeps sending requests and never reads a response:
		// its socket has a small receive window that is never drained
		nr, err := newClient(opcua.AutoReconnect(false))
		if err == nil {
			cctx, cancel := context.WithTimeout(ctx, 10*time.Second)
			err = nr.Connect(cctx)
			cancel()
		}
		if err == nil {
			conns := s.Net.Conns()
			mine := conns[len(conns)-1]
			mine.S2C.Window = 4096
			mine.S2C.StallUntil = time.Hour
			s.Fault("noreader")
			wg.Add(1)
			go func() {
				defer wg.Done()
				for i := 0; i < 300; i++ {
					select {
					case <-stop:
						return
					default:
					}
					// no handler: the call returns as soon as the request is written
					nr.Send(ctx, readReq(e.nodeID("x"), ua.NewNumericNodeID(0, id.Server_NamespaceArray)), nil)
					time.Sleep(5 * time.Millisecond)
				}
			}()
		}
	}

	// raw misbehaving peers
	for i, kind := range r.Raw {
		wg.Add(1)
		go func(i, kind int) {
			defer wg.Done()
			time.Sleep(time.Duration(i*150) * time.Millisecond)
			c, err := s.Net.Dial(ctx, srvAddr)
			if err != nil {
				return
			}
			s.Probe(fmt.Sprintf("raw-%d", kind))
			hel := refcodec.Hello{RecvBuf: 65535, SendBuf: 65535, Endpoint: srvURL}.Frame()
			switch kind {
			case 0: // reset before sending anything
				for _, sc := range s.Net.Conns() {
					if sc.Client == c {
						sc.Reset()
					}
				}
			case 1: // half a hello then reset
				c.Write(hel[:10])
				time.Sleep(50 * time.Millisecond)
				for _, sc := range s.Net.Conns() {
					if sc.Client == c {
						sc.Reset()
					}
				}
			case 2: // hello then garbage
				c.Write(hel)
				refcodec.ReadFrame(c, 1<<16)
				c.Write([]byte("MSGF\x10\x00\x00\x00garbage!garbage!"))
				time.Sleep(time.Second)
				c.Close()
			case 3: // absurd size
				c.Write(refcodec.FrameWithSize("HELF", make([]byte, 24), 0xffffffff))
				time.Sleep(time.Second)
				c.Close()
			case 4: // connect and say nothing for a while, then close
				time.Sleep(3 * time.Second)
				c.Close()
			case 5: // hello with tiny buffers, then an OPN that does not decode
				binary.LittleEndian.PutUint32(hel[12:], 1)
				c.Write(hel)
				refcodec.ReadFrame(c, 1<<16)
				c.Write(refcodec.Frame("OPNF", make([]byte, 40)))
				time.Sleep(time.Second)
				c.Close()
			case 6: // ERR frame as first message
				c.Write(refcodec.ErrFrame(0x80010000, "go away"))
				time.Sleep(time.Second)
				c.Close()
			default: // close immediately
				c.Close()
			}
		}(i, kind)
	}

	// hostile clients with real protocol stacks
	clients := make([]*c29Client, r.Hostile)
	for i := range clients {
		c, err := newClient(opcua.AutoReconnect(false), opcua.RequestTimeout(3*time.Second))
		if err != nil {
			s.Fail("HARNESS", "setup", "hostile", "%v", err)
			return
		}
		cctx, cancel := context.WithTimeout(ctx, 10*time.Second)
		if r.NoSession[i] {
			err = c.Dial(cctx)
		} else {
			err = c.Connect(cctx)
		}
		cancel()
		if err != nil {
			// the server may already be in trouble; the canary decides
			s.Probe("hostile-connect-failed")
		}
		clients[i] = &c29Client{c: c}
	}
	for oi, op := range r.Ops {
		st := clients[op.Client]
		if r.Avoid && r.avoided(op, st, r.NoSession[op.Client]) {
			continue
		}
		req := r.request(op, e, st)
		s.Tracef("op %d %s", oi, op.Kind)
		rctx, cancel := context.WithTimeout(ctx, 3*time.Second)
		st.c.Send(rctx, req, func(v ua.Response) error {
			switch res := v.(type) {
			case *ua.CreateSubscriptionResponse:
				st.subs = append(st.subs, res.SubscriptionID)
			case *ua.CreateMonitoredItemsResponse:
				for _, it := range res.Results {
					if it != nil && it.StatusCode == ua.StatusOK {
						st.items = append(st.items, it.MonitoredItemID)
					}
				}
			}
			return nil
		})
		cancel()
		s.Probe("op-" + op.Kind)
		if s.Failed() {
			break
		}
	}
	s.Nontrivial()
	time.Sleep(2 * time.Second)
	for i, c := range s.Net.Conns() {
		s.Info[fmt.Sprintf("conn%d", i)] = fmt.Sprintf("c2s w=%d d=%d s2c w=%d d=%d win=%d", c.C2S.Written, c.C2S.Delivered, c.S2C.Written, c.S2C.Delivered, c.S2C.Window)
	}
	close(stop)
	wg.Wait()
	if !s.Failed() {
		canaryRead("after")
	}
	if !s.Failed() {
		// a fresh well-behaved client must still be able to connect
		late, err := newClient(opcua.AutoReconnect(false), opcua.RequestTimeout(5*time.Second))
		if err == nil {
			cctx, cancel := context.WithTimeout(ctx, 15*time.Second)
			err = late.Connect(cctx)
			cancel()
		}
		if err != nil {
			s.Fail("C29", "canary", "new-client-cannot-connect", "a well-behaved client cannot connect after the hostile traffic: %v; raw=%v\n%s", err, r.Raw, serverStacks())
		} else {
			s.Probe("late-connect-ok")
			late.Close(ctx)
		}
	}
	s.Teardown()
	for _, c := range clients {
		c.c.Close(ctx)
	}
	canary.Close(ctx)
}

func (r *c29Run) Finish(s *sim.Sim) {}

// dispatcherSig names where the server's single dispatcher goroutine is stuck.
func dispatcherSig(tag string) string {
	for _, g := range strings.Split(sim.GoroutineDump(), "\n\n") {
		if !strings.Contains(g, "server.(*Server).monitorConnections") {
			continue
		}
		what := "running"
		if strings.Contains(g, "sim.(*End).Write") {
			what = "socket-write"
		} else if strings.Contains(g, "simhook.(*Mutex).Lock") || strings.Contains(g, "simhook.(*RWMutex)") {
			what = "lock"
		} else if strings.Contains(g, "chan send") {
			what = "chan-send"
		} else if strings.Contains(g, "chan receive") || strings.Contains(g, "[select") {
			return "canary-read-failed-" + tag + ":dispatcher-idle"
		}
		m := leakFnRe.FindString(g)
		return "dispatcher-blocked:" + what + ":" + strings.TrimPrefix(m, "github.com/gopcua/opcua/")
	}
	return "canary-read-failed-" + tag + ":no-dispatcher"
}

func serverStacks() string {
	d := sim.GoroutineDump()
	if len(d) > 12000 {
		d = d[:12000]
	}
	return d
}

func init() {
	Register(&Scenario{Name: "c29", Props: []string{"C29"}, Horizon: 10 * time.Minute, MaxSteps: 400000, New: func() Run { return &c29Run{} }, StuckProperty: "C29"})
}
