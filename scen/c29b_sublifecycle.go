//go:build verif

package scen

import (
	"context"
	"fmt"
	"sync"
	"time"

	"github.com/gopcua/opcua"
	"github.com/gopcua/opcua/ua"

	"verif/sim"
)

// C29 (second scenario): clients that abuse the subscription life cycle must
// not be able to hang the server.
//
// Well-formed clients create subscriptions with several monitored items on
// shared nodes and then go away in every way a deployment sees: orderly
// Close, DeleteSubscriptions, deleting some items, a connection reset
// (the subscription then dies of its life-time on the server), or they delete a
// subscription while another request of theirs creates items on it. A canary
// keeps writing the shared nodes (every write fans out to whatever monitored
// items the server still has registered) and reading; each canary call has to
// complete within 5 simulated seconds, during the abuse and for several hundred
// writes afterwards.

type c29bClient struct {
	Subs     int    `json:"subs"`
	Items    int    `json:"items_per_sub"`
	Interval int    `json:"interval_ms"`
	Lifetime uint32 `json:"lifetime_count"`
	Exit     string `json:"exit"` // close | deletesub | deleteitems | reset | delete-vs-create | stay
	AfterMs  int    `json:"exit_after_ms"`
}

type c29bRun struct {
	Clients     []c29bClient `json:"clients"`
	Nodes       int          `json:"nodes"`
	WritesAfter int          `json:"writes_after"`
	WriteGapMs  int          `json:"write_gap_ms"`
}

func (r *c29bRun) Sample() any { return r }

func (r *c29bRun) Setup(s *sim.Sim) {
	p := s.Plan
	s.DrawPolicy()
	r.Nodes = 1 + p.Intn(3)
	for i, n := 0, 1+p.Intn(3); i < n; i++ {
		r.Clients = append(r.Clients, c29bClient{
			Subs: 1 + p.Intn(2), Items: 1 + p.Intn(6), Interval: sim.Pick(p, 50, 100, 250), Lifetime: sim.Pick(p, uint32(3), 3, 6, 30),
			Exit:    sim.Pick(p, "close", "deletesub", "deleteitems", "reset", "reset", "delete-vs-create", "delete-vs-create", "stay"),
			AfterMs: sim.Pick(p, 0, 50, 300, 1200),
		})
	}
	r.WritesAfter = sim.Pick(p, 120, 150, 260)
	r.WriteGapMs = sim.Pick(p, 0, 1, 5)
}

func (r *c29bRun) Main(s *sim.Sim) {
	e, err := startServer(s, func(e *env) {
		for i := 0; i < r.Nodes; i++ {
			e.ns.AddNewVariableStringNode(fmt.Sprintf("n%d", i), int32(0))
		}
	})
	if err != nil {
		s.Fail("HARNESS", "setup", "server", "%v", err)
		return
	}
	defer e.stop()
	ctx := context.Background()
	nid := func(i int) *ua.NodeID { return e.nodeID(fmt.Sprintf("n%d", i%r.Nodes)) }

	canary, err := newClient(opcua.AutoReconnect(false), opcua.RequestTimeout(5*time.Second))
	if err == nil {
		err = canary.Connect(ctx)
	}
	if err != nil {
		s.Fail("HARNESS", "setup", "canary", "%v", err)
		return
	}
	var seq int32
	canaryCall := func(tag string, k int) bool {
		rctx, cancel := context.WithTimeout(ctx, 5*time.Second)
		defer cancel()
		t0 := s.Now()
		seq++
		res, err := canary.Write(rctx, writeReq(nid(k), seq))
		if err != nil || len(res.Results) != 1 || res.Results[0] != ua.StatusOK {
			s.Fail("C29", "canary", dispatcherSig(tag+"-write"), "a well-behaved client's Write #%d (%s) was not answered within 5 s (after %v): err=%v; clients %+v\n%s", seq, tag, s.Now()-t0, err, r.Clients, serverStacks())
			return false
		}
		if k%8 == 0 {
			rr, err := canary.Read(rctx, readReq(nid(k)))
			if err != nil || len(rr.Results) != 1 || rr.Results[0].Status != ua.StatusOK {
				s.Fail("C29", "canary", dispatcherSig(tag+"-read"), "a well-behaved client's Read (%s) failed after %v: err=%v\n%s", tag, s.Now()-t0, err, serverStacks())
				return false
			}
		}
		s.Probe("canary-ok")
		return true
	}
	stop := make(chan struct{})
	var cwg sync.WaitGroup
	cwg.Add(1)
	go func() {
		defer cwg.Done()
		for k := 0; ; k++ {
			select {
			case <-stop:
				return
			case <-time.After(30 * time.Millisecond):
			}
			if !canaryCall("during", k) {
				return
			}
		}
	}()

	var wg sync.WaitGroup
	for ci, cc := range r.Clients {
		wg.Add(1)
		go func(ci int, cc c29bClient) {
			defer wg.Done()
			c, err := newClient(opcua.AutoReconnect(false), opcua.RequestTimeout(3*time.Second))
			if err != nil {
				return
			}
			cctx, cancel := context.WithTimeout(ctx, 10*time.Second)
			err = c.Connect(cctx)
			cancel()
			if err != nil {
				s.Probe("abuser-connect-failed")
				return
			}
			conns := s.Net.Conns()
			mine := conns[len(conns)-1]
			var subs []*opcua.Subscription
			var items [][]uint32
			for k := 0; k < cc.Subs; k++ {
				ch := make(chan *opcua.PublishNotificationData, 1024)
				sub, err := c.Subscribe(ctx, &opcua.SubscriptionParameters{Interval: time.Duration(cc.Interval) * time.Millisecond, LifetimeCount: cc.Lifetime, MaxKeepAliveCount: 1}, ch)
				if err != nil {
					s.Probe("abuser-subscribe-failed")
					continue
				}
				go func() {
					for range ch {
					}
				}()
				var reqs []*ua.MonitoredItemCreateRequest
				for j := 0; j < cc.Items; j++ {
					reqs = append(reqs, opcua.NewMonitoredItemCreateRequestWithDefaults(nid(ci+j), ua.AttributeIDValue, uint32(100*k+j)))
				}
				res, err := sub.Monitor(ctx, ua.TimestampsToReturnBoth, reqs...)
				var ids []uint32
				if err == nil {
					for _, it := range res.Results {
						if it.StatusCode == ua.StatusOK {
							ids = append(ids, it.MonitoredItemID)
						}
					}
					s.Probe("items-created")
				}
				subs = append(subs, sub)
				items = append(items, ids)
			}
			time.Sleep(time.Duration(cc.AfterMs) * time.Millisecond)
			s.Yield("abuser.exit")
			s.Probe("exit-" + cc.Exit)
			switch cc.Exit {
			case "close":
				c.Close(ctx)
			case "deletesub":
				for _, sub := range subs {
					sub.Cancel(ctx)
				}
				c.Close(ctx)
			case "deleteitems":
				for k, sub := range subs {
					if len(items[k]) > 0 {
						sub.Unmonitor(ctx, items[k][:(len(items[k])+1)/2]...)
					}
				}
				mine.Reset()
				s.Fault("rst")
			case "reset":
				mine.Reset()
				s.Fault("rst")
			case "delete-vs-create":
				// the same session deletes a subscription while it creates items on it
				var dwg sync.WaitGroup
				for _, sub := range subs {
					sub := sub
					dwg.Add(2)
					go func() {
						defer dwg.Done()
						s.Yield("abuser.delete")
						rctx, cancel := context.WithTimeout(ctx, 3*time.Second)
						defer cancel()
						c.Send(rctx, &ua.DeleteSubscriptionsRequest{SubscriptionIDs: []uint32{sub.SubscriptionID}}, func(ua.Response) error { return nil })
					}()
					go func() {
						defer dwg.Done()
						s.Yield("abuser.create")
						rctx, cancel := context.WithTimeout(ctx, 3*time.Second)
						defer cancel()
						req := &ua.CreateMonitoredItemsRequest{SubscriptionID: sub.SubscriptionID, TimestampsToReturn: ua.TimestampsToReturnBoth,
							ItemsToCreate: []*ua.MonitoredItemCreateRequest{opcua.NewMonitoredItemCreateRequestWithDefaults(nid(ci), ua.AttributeIDValue, 999)}}
						c.Send(rctx, req, func(ua.Response) error { return nil })
					}()
				}
				dwg.Wait()
				mine.Reset()
				s.Fault("rst")
			default: // stay connected until the end of the run
				<-stop
				c.Close(ctx)
			}
		}(ci, cc)
	}
	// let the abusers do their thing (the "stay" ones return when stop closes)
	abuseDone := make(chan struct{})
	go func() { wg.Wait(); close(abuseDone) }()
	time.Sleep(4 * time.Second)
	// subscriptions of vanished clients run out of life time: 30 * 250 ms at most
	time.Sleep(8 * time.Second)
	s.Nontrivial()
	close(stop)
	cwg.Wait()
	select {
	case <-abuseDone:
	case <-time.After(30 * time.Second):
	}
	// several hundred writes afterwards: whatever the server still has registered for
	// the departed clients must not swallow the dispatcher
	for k := 0; k < r.WritesAfter && !s.Failed(); k++ {
		if !canaryCall("after", k) {
			break
		}
		if r.WriteGapMs > 0 {
			time.Sleep(time.Duration(r.WriteGapMs) * time.Millisecond)
		}
	}
	if !s.Failed() {
		late, err := newClient(opcua.AutoReconnect(false), opcua.RequestTimeout(5*time.Second))
		if err == nil {
			cctx, cancel := context.WithTimeout(ctx, 15*time.Second)
			err = late.Connect(cctx)
			cancel()
		}
		if err != nil {
			s.Fail("C29", "canary", "new-client-cannot-connect", "a well-behaved client cannot connect after the subscription abuse: %v\n%s", err, serverStacks())
		} else {
			s.Probe("late-connect-ok")
			late.Close(ctx)
		}
	}
	s.Teardown()
	canary.Close(ctx)
}

func (r *c29bRun) Finish(s *sim.Sim) {}

func init() {
	Register(&Scenario{Name: "c29b", Props: []string{"C29"}, Horizon: 10 * time.Minute, MaxSteps: 600000, New: func() Run { return &c29bRun{} }, StuckProperty: "C29"})
}
