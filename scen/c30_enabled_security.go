//go:build verif

package scen

import (
	"context"
	"fmt"
	"sort"
	"time"

	"github.com/gopcua/opcua"
	"github.com/gopcua/opcua/server"
	"github.com/gopcua/opcua/ua"
	"github.com/gopcua/opcua/uacp"
	"github.com/gopcua/opcua/uasc"

	"verif/refcodec"
	"verif/sim"
)

// C30: the server only opens channels with security settings it enabled.

type secPair struct {
	Policy string `json:"policy"`
	Mode   int    `json:"mode"`
}

func allPairs() []secPair {
	out := []secPair{{"None", 1}}
	for _, p := range []string{"Basic128Rsa15", "Basic256", "Basic256Sha256", "Aes128_Sha256_RsaOaep", "Aes256_Sha256_RsaPss"} {
		out = append(out, secPair{p, 2}, secPair{p, 3})
	}
	return out
}

type c30Probe struct {
	Kind string  `json:"kind"` // pair | raw
	Pair secPair `json:"pair"`
	Raw  string  `json:"raw,omitempty"` // policy-with-mode-none | mode-invalid | unknown-policy | mode-mismatch
}

type c30Run struct {
	Enabled []secPair  `json:"enabled"`
	Probes  []c30Probe `json:"probes"`
}

func (r *c30Run) Sample() any { return r }

func (r *c30Run) Setup(s *sim.Sim) {
	p := s.Plan
	s.DrawPolicy()
	loadKeys()
	all := allPairs()
	// configuration: all singletons, the empty and the full set exhaustively by seed, other subsets sampled
	idx := int(s.Seed % 40)
	switch {
	case idx < len(all):
		r.Enabled = []secPair{all[idx]}
	case idx == len(all):
		r.Enabled = all
	default:
		for _, pr := range all {
			if p.Intn(3) == 0 {
				r.Enabled = append(r.Enabled, pr)
			}
		}
		if len(r.Enabled) == 0 {
			r.Enabled = []secPair{all[p.Intn(len(all))]}
		}
	}
	n := 3 + p.Intn(6)
	for i := 0; i < n; i++ {
		if p.Intn(4) == 0 {
			r.Probes = append(r.Probes, c30Probe{Kind: "raw", Pair: all[1+p.Intn(len(all)-1)], Raw: sim.Pick(p, "policy-with-mode-none", "mode-invalid", "unknown-policy", "mode-mismatch", "renew-switches-pair", "renew-switches-pair")})
		} else {
			r.Probes = append(r.Probes, c30Probe{Kind: "pair", Pair: all[p.Intn(len(all))]})
		}
	}
}

func (r *c30Run) enabled(p secPair) bool {
	for _, e := range r.Enabled {
		if e == p {
			return true
		}
	}
	return false
}

func (r *c30Run) Main(s *sim.Sim) {
	sk, ck := key("server", 2048), key("client", 2048)
	opts := []server.Option{server.EnableAuthMode(ua.UserTokenTypeAnonymous), server.Certificate(sk.Cert), server.PrivateKey(sk.Key)}
	for _, e := range r.Enabled {
		opts = append(opts, server.EnableSecurity(e.Policy, ua.MessageSecurityMode(e.Mode)))
	}
	e, err := startServer(s, func(e *env) { e.ns.AddNewVariableStringNode("x", int32(5)) }, opts...)
	if err != nil {
		s.Fail("HARNESS", "setup", "server", "%v", err)
		return
	}
	defer e.stop()
	ctx := context.Background()
	uri := func(p secPair) string { return secCfg{Policy: p.Policy}.uri() }
	// 1. the advertised endpoints are exactly the enabled pairs
	eps := e.srv.Endpoints()
	var got, want []string
	for _, ep := range eps {
		got = append(got, fmt.Sprintf("%s/%d", ep.SecurityPolicyURI, ep.SecurityMode))
	}
	for _, p := range r.Enabled {
		want = append(want, fmt.Sprintf("%s/%d", uri(p), p.Mode))
	}
	sort.Strings(got)
	sort.Strings(want)
	if fmt.Sprint(got) != fmt.Sprint(want) {
		s.Fail("C30", "endpoints", "advertised-differ-from-enabled", "the server advertises %v but was configured with %v", got, want)
		return
	}
	tryOpen := func(p secPair) error {
		conn, err := uacp.Dial(ctx, srvURL)
		if err != nil {
			return fmt.Errorf("dial: %w", err)
		}
		defer conn.Close()
		cfg := &uasc.Config{SecurityPolicyURI: uri(p), SecurityMode: ua.MessageSecurityMode(p.Mode), Lifetime: 60000, RequestTimeout: 5 * time.Second}
		if p.Policy != "None" {
			cfg.Certificate, cfg.LocalKey, cfg.RemoteCertificate, cfg.Thumbprint = ck.Cert, ck.Key, sk.Cert, thumbprint(sk.Cert)
		}
		sc, err := uasc.NewSecureChannel(srvURL, conn, cfg, make(chan error, 16))
		if err != nil {
			return err
		}
		octx, cancel := context.WithTimeout(ctx, 8*time.Second)
		defer cancel()
		if err := sc.Open(octx); err != nil {
			return err
		}
		// an opened channel also answers a discovery request
		var ok bool
		err = sc.SendRequestWithTimeout(octx, &ua.GetEndpointsRequest{EndpointURL: srvURL}, nil, 5*time.Second, func(v ua.Response) error {
			_, ok = v.(*ua.GetEndpointsResponse)
			return nil
		})
		sc.Close()
		if err != nil || !ok {
			return fmt.Errorf("channel opened but unusable: %v", err)
		}
		return nil
	}
	for i, pb := range r.Probes {
		if pb.Kind == "pair" {
			err := tryOpen(pb.Pair)
			switch {
			case r.enabled(pb.Pair) && err != nil:
				s.Fail("C30", "enabled-pair-refused", pb.Pair.Policy, "probe %d: %s/%d is enabled but the channel did not open: %v", i, pb.Pair.Policy, pb.Pair.Mode, err)
				return
			case !r.enabled(pb.Pair) && err == nil:
				s.Fail("C30", "disabled-pair-accepted", "pair-not-enabled", "probe %d: a channel with %s/%d opened although the server only enables %v", i, pb.Pair.Policy, pb.Pair.Mode, r.Enabled)
				return
			}
			if err == nil {
				s.Probe("enabled-pair-opened")
			} else {
				s.Probe("disabled-pair-refused")
				s.Nontrivial()
			}
			continue
		}
		if pb.Raw == "renew-switches-pair" {
			// a channel opened with an enabled pair is "renewed" with a pair that is not enabled
			from := r.Enabled[(pb.Pair.Mode+len(pb.Pair.Policy))%len(r.Enabled)]
			to := pb.Pair
			if r.enabled(to) || to == from {
				s.Probe("raw-renew-switches-pair-skipped")
				continue
			}
			fsec := secCfg{Policy: from.Policy, Mode: from.Mode, ClientBits: 2048, ServerBits: 2048}
			cl, err := dialRawClient(s, srvAddr, refcodec.Hello{RecvBuf: 65535, SendBuf: 65535, Endpoint: srvURL}, &fsec)
			if err != nil {
				s.Fail("HARNESS", "setup", "rawclient", "%v", err)
				return
			}
			if err := cl.Open(60000, false); err != nil {
				cl.Close()
				s.Fail("C30", "enabled-pair-refused", from.Policy, "probe %d: a reference client could not open a channel with the enabled pair %s/%d: %v", i, from.Policy, from.Mode, err)
				return
			}
			tsec := secCfg{Policy: to.Policy, Mode: to.Mode, ClientBits: 2048, ServerBits: 2048}
			cl.sec, cl.pol = &tsec, nil
			if to.Policy != "None" {
				cl.pol = refcodec.Policies[to.Policy]
			}
			rerr := cl.Open(60000, true)
			var svc any
			if rerr == nil {
				// the switched channel even serves requests
				svc, _ = cl.Request(&ua.GetEndpointsRequest{EndpointURL: srvURL}, 3*time.Second)
			}
			cl.Close()
			if rerr == nil {
				s.Fail("C30", "disabled-pair-accepted", "raw-renew-switches-pair", "probe %d: a channel opened with %s/%d was renewed with %s/%d, which the server does not enable (%v), and the server answered Good (request over the switched channel answered with %T)", i, from.Policy, from.Mode, to.Policy, to.Mode, r.Enabled, svc)
				return
			}
			s.Probe("raw-renew-switches-pair-refused")
			s.Nontrivial()
			continue
		}
		// raw OPN requests no real client would send
		sec := secCfg{Policy: pb.Pair.Policy, Mode: pb.Pair.Mode, ClientBits: 2048, ServerBits: 2048}
		cl, err := dialRawClient(s, srvAddr, refcodec.Hello{RecvBuf: 65535, SendBuf: 65535, Endpoint: srvURL}, &sec)
		if err != nil {
			s.Fail("HARNESS", "setup", "rawclient", "%v", err)
			return
		}
		nonce := make([]byte, 32)
		mode := ua.MessageSecurityMode(pb.Pair.Mode)
		switch pb.Raw {
		case "policy-with-mode-none":
			mode = ua.MessageSecurityModeNone
		case "mode-invalid":
			mode = ua.MessageSecurityModeInvalid
		case "mode-mismatch":
			mode = ua.MessageSecurityMode(5 - pb.Pair.Mode) // Sign <-> SignAndEncrypt
		}
		req := &ua.OpenSecureChannelRequest{RequestHeader: &ua.RequestHeader{AuthenticationToken: ua.NewTwoByteNodeID(0), Timestamp: time.Now(), AdditionalHeader: ua.NewExtensionObject(nil)},
			RequestType: ua.SecurityTokenRequestTypeIssue, SecurityMode: mode, ClientNonce: nonce, RequestedLifetime: 60000}
		body, _ := encodeService(req)
		if pb.Raw == "unknown-policy" {
			cl.pol = nil // plain chunk with an unknown policy URI
			ch := &refcodec.Chunk{Type: "OPN", ChunkType: 'F', PolicyURI: "http://opcfoundation.org/UA/SecurityPolicy#Basic512", Seq: 1, RequestID: 1, Body: body}
			cl.nc.Write(ch.EncodePlain())
		} else {
			cl.SendBody("OPN", 1, body)
		}
		_, svc, err := cl.Recv(5 * time.Second)
		cl.Close()
		effective := secPair{pb.Pair.Policy, int(mode)}
		opened := false
		if err == nil {
			if resp, ok := svc.(*ua.OpenSecureChannelResponse); ok && resp.ResponseHeader.ServiceResult == ua.StatusOK {
				opened = true
			}
		}
		if opened && (pb.Raw == "unknown-policy" || pb.Raw == "policy-with-mode-none" || pb.Raw == "mode-invalid" || !r.enabled(effective)) {
			s.Fail("C30", "disabled-pair-accepted", "raw-"+pb.Raw, "probe %d: a raw OpenSecureChannel request with policy %s and mode %d (%s) was answered with Good although the server only enables %v", i, pb.Pair.Policy, mode, pb.Raw, r.Enabled)
			return
		}
		s.Probe("raw-" + pb.Raw + "-refused")
		s.Nontrivial()
	}
	s.Teardown()
	_ = opcua.Closed
}

func (r *c30Run) Finish(s *sim.Sim) {}

func init() {
	Register(&Scenario{Name: "c30", Props: []string{"C30"}, Horizon: 10 * time.Minute, MaxSteps: 800000, New: func() Run { return &c30Run{} }, StuckProperty: "C30"})
}
