//go:build verif

package scen

import (
	"fmt"
	"time"

	"github.com/gopcua/opcua"
	"github.com/gopcua/opcua/server"
	"github.com/gopcua/opcua/ua"

	"verif/sim"
)

// C31: node access levels are enforced for value reads and writes.

// level kinds: -1 absent, 0..3 byte value, 4 wrong go type (uint32(3))
type c31Node struct {
	AL, UAL int
}

type c31Op struct {
	Client int   `json:"c"`
	Kind   int   `json:"k"` // 0 read value, 1 write value, 2 write AccessLevel, 3 write UserAccessLevel
	Node   int   `json:"n"`
	Level  int   `json:"lvl,omitempty"`
	Batch  []int `json:"batch,omitempty"` // extra nodes in the same request (reads/writes of value)
}

type c31Run struct {
	Nodes []c31Node `json:"nodes"`
	Ops   []c31Op   `json:"ops"`
	next  int32
}

func (r *c31Run) Sample() any { return r }

func (r *c31Run) Setup(s *sim.Sim) {
	p := s.Plan
	s.DrawPolicy()
	for al := -1; al <= 7; al++ {
		for ual := -1; ual <= 7; ual++ {
			r.Nodes = append(r.Nodes, c31Node{al, ual})
		}
	}
	n := 10 + p.Intn(50)
	for i := 0; i < n; i++ {
		op := c31Op{Client: p.Intn(2), Node: p.Intn(len(r.Nodes))}
		switch p.Intn(12) {
		case 0, 1, 2, 3:
			op.Kind = 0
		case 4, 5, 6, 7:
			op.Kind = 1
		case 8:
			op.Kind, op.Level = 2, p.Intn(5)
		case 9:
			op.Kind, op.Level = 3, p.Intn(5)
		case 10: // the server application changes the level through the public Node API
			op.Kind, op.Level = 4, p.Intn(8)
		default:
			op.Kind, op.Level = 5, p.Intn(8)
		}
		if op.Kind <= 1 && p.Chance(1, 4) {
			for k := 0; k < 1+p.Intn(3); k++ {
				op.Batch = append(op.Batch, p.Intn(len(r.Nodes)))
			}
		}
		r.Ops = append(r.Ops, op)
	}
}

func c31LevelValue(l int) any {
	switch l {
	case 4:
		return uint32(3) // wrong Go type, both bits
	case 5:
		return uint32(0) // wrong Go type, no access at all
	case 6:
		return int32(1) // wrong Go type, read only
	case 7:
		return uint16(2) // wrong Go type, write only
	}
	return byte(l)
}

// truth inspects the node directly: does a present, well-typed level lack flag?
func c31Lacks(n *server.Node, flag ua.AccessLevelType) (lacks bool, silent bool) {
	silent = true
	for _, a := range []ua.AttributeID{ua.AttributeIDAccessLevel, ua.AttributeIDUserAccessLevel} {
		av, err := n.Attribute(a)
		if err != nil || av == nil || av.Value == nil || av.Value.Value == nil {
			continue
		}
		var b uint64
		switch v := av.Value.Value.Value().(type) {
		case uint8:
			b = uint64(v)
		// an access level stored with another integer type still says what it says: if the
		// number lacks the bit, access has to be refused (the unchanged server refuses such
		// nodes altogether, which satisfies this)
		case uint16:
			b = uint64(v)
		case uint32:
			b = uint64(v)
		case int32:
			b = uint64(v)
		case int64:
			b = uint64(v)
		case int:
			b = uint64(v)
		default:
			continue // not a number at all: the statement is silent
		}
		silent = false
		if b&uint64(flag) == 0 {
			lacks = true
		}
	}
	return
}

func c31Val(n *server.Node) (int32, bool) {
	dv := n.Value()
	if dv == nil || dv.Value == nil {
		return 0, false
	}
	v, ok := dv.Value.Value().(int32)
	return v, ok
}

func (r *c31Run) Main(s *sim.Sim) {
	var nodes []*server.Node
	e, err := startServer(s, func(e *env) {
		for i, nd := range r.Nodes {
			n := server.NewVariableNode(e.nodeID(fmt.Sprintf("a%d", i)), fmt.Sprintf("a%d", i), int32(1000+i))
			if nd.AL >= 0 {
				n.SetAttribute(ua.AttributeIDAccessLevel, server.DataValueFromValue(c31LevelValue(nd.AL)))
			}
			if nd.UAL >= 0 {
				n.SetAttribute(ua.AttributeIDUserAccessLevel, server.DataValueFromValue(c31LevelValue(nd.UAL)))
			}
			e.ns.AddNode(n)
			nodes = append(nodes, n)
		}
	})
	if err != nil {
		s.Fail("HARNESS", "setup", "server", "%v", err)
		return
	}
	defer e.stop()
	var cl [2]*opcua.Client
	for i := range cl {
		c, err := newClient(opcua.AutoReconnect(false), opcua.RequestTimeout(5*time.Second))
		if err == nil {
			err = c.Connect(e.ctx)
		}
		if err != nil {
			s.Fail("HARNESS", "setup", "connect", "%v", err)
			return
		}
		cl[i] = c
		defer c.Close(e.ctx)
	}
	id := func(i int) *ua.NodeID { return e.nodeID(fmt.Sprintf("a%d", i)) }
	r.next = 5000
	for oi, op := range r.Ops {
		c := cl[op.Client]
		targets := append([]int{op.Node}, op.Batch...)
		switch op.Kind {
		case 0:
			var ids []*ua.NodeID
			type pre struct {
				lacks, silent bool
				cur           int32
			}
			var pres []pre
			for _, t := range targets {
				ids = append(ids, id(t))
				l, sl := c31Lacks(nodes[t], ua.AccessLevelTypeCurrentRead)
				cur, _ := c31Val(nodes[t])
				pres = append(pres, pre{l, sl, cur})
			}
			res, err := c.Read(e.ctx, readReq(ids...))
			if err != nil || len(res.Results) != len(targets) {
				s.Fail("C31", "read-failed", "service-error", "op %d: read failed: %v", oi, err)
				return
			}
			for k, t := range targets {
				dv := res.Results[k]
				hasVal := dv != nil && dv.Value != nil && dv.Value.Value() != nil
				if pres[k].lacks {
					s.Probe("read-denied-expected")
					if hasVal {
						s.Fail("C31", "read-leak", "value-returned-without-CurrentRead", "op %d: node a%d %+v lacks CurrentRead but read returned value %v (status %v)", oi, t, r.Nodes[t], dv.Value.Value(), dv.Status)
						return
					}
				} else if !pres[k].silent {
					s.Probe("read-allowed")
					if hasVal {
						if v, ok := dv.Value.Value().(int32); !ok || v != pres[k].cur {
							s.Fail("C31", "read-wrong", "wrong-value", "op %d: node a%d read %v, node holds %d", oi, t, dv.Value.Value(), pres[k].cur)
							return
						}
					}
				}
			}
		case 1:
			req := &ua.WriteRequest{}
			type pre struct {
				lacks, silent bool
				old, nv       int32
			}
			var pres []pre
			seen := map[int]bool{}
			var ts []int
			for _, t := range targets {
				if seen[t] {
					continue
				}
				seen[t] = true
				ts = append(ts, t)
				r.next++
				l, sl := c31Lacks(nodes[t], ua.AccessLevelTypeCurrentWrite)
				old, _ := c31Val(nodes[t])
				pres = append(pres, pre{l, sl, old, r.next})
				req.NodesToWrite = append(req.NodesToWrite, &ua.WriteValue{NodeID: id(t), AttributeID: ua.AttributeIDValue,
					Value: &ua.DataValue{EncodingMask: ua.DataValueValue, Value: ua.MustVariant(r.next)}})
			}
			res, err := c.Write(e.ctx, req)
			if err != nil || len(res.Results) != len(ts) {
				s.Fail("C31", "write-failed", "service-error", "op %d: write failed: %v", oi, err)
				return
			}
			for k, t := range ts {
				st := res.Results[k]
				now, _ := c31Val(nodes[t])
				if pres[k].lacks {
					s.Probe("write-denied-expected")
					if st == ua.StatusOK || st&0x80000000 == 0 {
						s.Fail("C31", "write-accepted", "good-status-without-CurrentWrite", "op %d: node a%d %+v lacks CurrentWrite but write returned %v", oi, t, r.Nodes[t], st)
						return
					}
					if now != pres[k].old {
						s.Fail("C31", "write-applied", "value-changed-without-CurrentWrite", "op %d: node a%d lacks CurrentWrite, status %v, but value changed %d -> %d", oi, t, st, pres[k].old, now)
						return
					}
				} else {
					// reply must agree with the effect
					if st == ua.StatusOK && now != pres[k].nv {
						s.Fail("C31", "write-lost", "good-status-no-effect", "op %d: node a%d write returned Good but node holds %d, want %d", oi, t, now, pres[k].nv)
						return
					}
					if st != ua.StatusOK && now != pres[k].old {
						s.Fail("C31", "write-applied", "bad-status-with-effect", "op %d: node a%d write returned %v but value changed %d -> %d", oi, t, st, pres[k].old, now)
						return
					}
					if st == ua.StatusOK {
						s.Probe("write-allowed")
					}
				}
			}
		case 2, 3:
			attr := ua.AttributeIDAccessLevel
			if op.Kind == 3 {
				attr = ua.AttributeIDUserAccessLevel
			}
			req := &ua.WriteRequest{NodesToWrite: []*ua.WriteValue{{NodeID: id(op.Node), AttributeID: attr,
				Value: &ua.DataValue{EncodingMask: ua.DataValueValue, Value: ua.MustVariant(c31LevelValue(op.Level))}}}}
			res, err := c.Write(e.ctx, req)
			if err != nil || len(res.Results) != 1 {
				s.Fail("C31", "write-failed", "service-error", "op %d: level write failed: %v", oi, err)
				return
			}
			if res.Results[0] == ua.StatusOK {
				s.Probe("level-changed")
				s.Nontrivial()
			}
		case 4, 5:
			attr := ua.AttributeIDAccessLevel
			if op.Kind == 5 {
				attr = ua.AttributeIDUserAccessLevel
			}
			// no request is in flight here: the application reconfigures the node between two client calls
			if err := nodes[op.Node].SetAttribute(attr, server.DataValueFromValue(c31LevelValue(op.Level))); err == nil {
				s.Probe("level-changed-by-application")
				s.Nontrivial()
			}
		}
	}
}

func (r *c31Run) Finish(s *sim.Sim) {}

func init() {
	Register(&Scenario{Name: "c31", Props: []string{"C31"}, Horizon: 5 * time.Minute, New: func() Run { return &c31Run{} }, StuckProperty: "HARNESS"})
}
