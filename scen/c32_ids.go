//go:build verif

package scen

import (
	"context"
	"fmt"
	"sort"
	"strings"
	"time"

	"github.com/gopcua/opcua"
	"github.com/gopcua/opcua/ua"

	"verif/sim"
)

// C32: subscription and monitored item ids are unique and session-scoped.

type c32Op struct {
	Sess int    `json:"s"`
	Kind string `json:"k"`   // createsub deletesub createitems deleteitems setmode
	Pick int    `json:"p"`   // which id class: 0 own live, 1 own deleted, 2 foreign live, 3 never issued, 4 zero, 5 max
	Idx  int    `json:"idx"` // selector inside the class
}

type c32Run struct {
	// FastDelete: the next operation follows a DeleteSubscriptions of one's own
	// subscription at once, while the server is still tearing the subscription down
	FastDelete   bool    `json:"no_pause_after_own_delete"`
	SlowTeardown bool    `json:"slow_subscription_teardown"`
	Sessions     int     `json:"sessions"`
	Ops          []c32Op `json:"ops"`
}

func (r *c32Run) Sample() any { return r }

func (r *c32Run) Setup(s *sim.Sim) {
	p := s.Plan
	s.DrawPolicy()
	r.Sessions = 2 + p.Intn(2)
	r.FastDelete = p.Bool()
	if r.SlowTeardown = p.Bool(); r.SlowTeardown {
		// the server's per-subscription goroutine is held at the locks it takes on its way out
		s.SlowPermille, s.SlowMax = 400, 12
		s.SlowDurs = []time.Duration{time.Millisecond, 5 * time.Millisecond, 15 * time.Millisecond}
		s.SlowWhere = func(label, where string) bool {
			return strings.Contains(where, "server.(*Subscription).run") || strings.Contains(where, "server.(*SubscriptionService).DeleteSubscription")
		}
	}
	n := 10 + p.Intn(50)
	kinds := []string{"createsub", "createsub", "deletesub", "createitems", "createitems", "deleteitems", "setmode"}
	for i := 0; i < n; i++ {
		r.Ops = append(r.Ops, c32Op{Sess: p.Intn(r.Sessions), Kind: kinds[p.Intn(len(kinds))], Pick: sim.Pick(p, 0, 0, 0, 1, 2, 2, 3, 4, 5), Idx: p.Intn(16)})
	}
}

type c32Sess struct {
	c        *opcua.Client
	subs     []uint32            // live
	deadSubs []uint32            // deleted by us
	items    map[uint32][]uint32 // live items per live sub
	deadItem []uint32
}

func isBad(st ua.StatusCode) bool { return uint32(st)&0x80000000 != 0 }

func (r *c32Run) Main(s *sim.Sim) {
	e, err := startServer(s, func(e *env) {
		for i := 0; i < 3; i++ {
			e.ns.AddNewVariableStringNode(fmt.Sprintf("v%d", i), int32(i))
		}
	})
	if err != nil {
		s.Fail("HARNESS", "setup", "server", "%v", err)
		return
	}
	defer e.stop()
	ctx := context.Background()
	sess := make([]*c32Sess, r.Sessions)
	for i := range sess {
		c, err := newClient(opcua.AutoReconnect(false), opcua.RequestTimeout(5*time.Second))
		if err == nil {
			err = c.Connect(ctx)
		}
		if err != nil {
			s.Fail("HARNESS", "setup", "connect", "%v", err)
			return
		}
		defer c.Close(ctx)
		sess[i] = &c32Sess{c: c, items: map[uint32][]uint32{}}
	}
	liveSubs := func() map[uint32]int {
		m := map[uint32]int{}
		for i, ss := range sess {
			for _, id := range ss.subs {
				m[id] = i
			}
		}
		return m
	}
	liveItems := func() map[uint32]int {
		m := map[uint32]int{}
		for i, ss := range sess {
			for _, its := range ss.items {
				for _, id := range its {
					m[id] = i
				}
			}
		}
		return m
	}
	// server side truth
	srvSubs := func() []uint32 {
		e.srv.SubscriptionService.Mu.Lock()
		defer e.srv.SubscriptionService.Mu.Unlock()
		var out []uint32
		for id := range e.srv.SubscriptionService.Subs {
			out = append(out, id)
		}
		sort.Slice(out, func(i, j int) bool { return out[i] < out[j] })
		return out
	}
	srvItems := func() []uint32 {
		e.srv.MonitoredItemService.Mu.Lock()
		defer e.srv.MonitoredItemService.Mu.Unlock()
		var out []uint32
		for id := range e.srv.MonitoredItemService.Items {
			out = append(out, id)
		}
		sort.Slice(out, func(i, j int) bool { return out[i] < out[j] })
		return out
	}
	// id/mode of every item: a foreign SetMonitoringMode must not change it either
	srvItemModes := func() []string {
		e.srv.MonitoredItemService.Mu.Lock()
		defer e.srv.MonitoredItemService.Mu.Unlock()
		var out []string
		for id, it := range e.srv.MonitoredItemService.Items {
			out = append(out, fmt.Sprintf("%d/mode%d", id, it.Mode))
		}
		sort.Strings(out)
		return out
	}
	settle := func() { time.Sleep(20 * time.Millisecond) } // background deletions
	// modes the model expects for live items (own SetMonitoringMode calls change them)
	modeOf := map[uint32]ua.MonitoringMode{}
	// victimsIntact: whatever a foreign or unknown-id operation did, everything the
	// model holds live must still be on the server with the monitoring mode its owner
	// gave it. (Comparing the server's maps before and after the call would also see
	// the teardown of subscriptions their owners deleted a moment ago.)
	victimsIntact := func(oi int, what string) bool {
		haveS := map[uint32]bool{}
		for _, id := range srvSubs() {
			haveS[id] = true
		}
		for id, owner := range liveSubs() {
			if !haveS[id] {
				s.Fail("C32", "foreign-op-effect", what+"-subscription-gone", "op %d (%s): subscription %d of session %d is live in the model but gone on the server (server has %v)", oi, what, id, owner, srvSubs())
				return false
			}
		}
		e.srv.MonitoredItemService.Mu.Lock()
		defer e.srv.MonitoredItemService.Mu.Unlock()
		for id, owner := range liveItems() {
			it := e.srv.MonitoredItemService.Items[id]
			if it == nil {
				s.Fail("C32", "foreign-op-effect", what+"-item-gone", "op %d (%s): monitored item %d of session %d is live in the model but gone on the server", oi, what, id, owner)
				return false
			}
			if want, ok := modeOf[id]; ok && it.Mode != want {
				s.Fail("C32", "foreign-op-effect", what+"-mode-changed", "op %d (%s): monitored item %d of session %d has monitoring mode %v, its owner set %v", oi, what, id, owner, it.Mode, want)
				return false
			}
		}
		return true
	}

	// pick an id of the requested class; owner = -1 if nobody owns it
	pickSub := func(me int, op c32Op) (uint32, string) {
		ss := sess[me]
		switch op.Pick {
		case 0:
			if len(ss.subs) > 0 {
				return ss.subs[op.Idx%len(ss.subs)], "own"
			}
		case 1:
			if len(ss.deadSubs) > 0 {
				id := ss.deadSubs[op.Idx%len(ss.deadSubs)]
				if _, live := liveSubs()[id]; !live {
					return id, "own-deleted"
				}
			}
		case 2:
			for k := 1; k < len(sess); k++ {
				o := sess[(me+k)%len(sess)]
				if len(o.subs) > 0 {
					return o.subs[op.Idx%len(o.subs)], "foreign"
				}
			}
		case 4:
			return 0, "unknown"
		case 5:
			return 0xffffffff, "unknown"
		}
		id := uint32(5000 + op.Idx)
		return id, "unknown"
	}
	pickItem := func(me int, op c32Op) (uint32, uint32, string) {
		ss := sess[me]
		switch op.Pick {
		case 0:
			for _, sub := range ss.subs {
				if its := ss.items[sub]; len(its) > 0 {
					return sub, its[op.Idx%len(its)], "own"
				}
			}
		case 1:
			if len(ss.deadItem) > 0 {
				var sub uint32
				if len(ss.subs) > 0 {
					sub = ss.subs[0]
				}
				return sub, ss.deadItem[op.Idx%len(ss.deadItem)], "own-deleted"
			}
		case 2:
			for k := 1; k < len(sess); k++ {
				o := sess[(me+k)%len(sess)]
				for _, sub := range o.subs {
					if its := o.items[sub]; len(its) > 0 {
						if op.Idx >= 8 && len(ss.subs) > 0 {
							// the other session's item, addressed through a subscription of one's own
							return ss.subs[op.Idx%len(ss.subs)], its[op.Idx%len(its)], "foreign-via-own-subscription"
						}
						return sub, its[op.Idx%len(its)], "foreign"
					}
				}
			}
		case 4:
			return 0, 0, "unknown"
		case 5:
			return 0xffffffff, 0xffffffff, "unknown"
		}
		var sub uint32
		if len(ss.subs) > 0 {
			sub = ss.subs[0]
		}
		return sub, uint32(90000 + op.Idx), "unknown"
	}

	send := func(c *opcua.Client, req ua.Request) (ua.Response, error) {
		var out ua.Response
		rctx, cancel := context.WithTimeout(ctx, 5*time.Second)
		defer cancel()
		err := c.Send(rctx, req, func(v ua.Response) error { out = v; return nil })
		return out, err
	}

	for oi, op := range r.Ops {
		me := op.Sess
		ss := sess[me]
		switch op.Kind {
		case "createsub":
			before := liveSubs()
			res, err := send(ss.c, &ua.CreateSubscriptionRequest{RequestedPublishingInterval: 1000, RequestedLifetimeCount: 100000, RequestedMaxKeepAliveCount: 10000, PublishingEnabled: true})
			cr, ok := res.(*ua.CreateSubscriptionResponse)
			if err != nil || !ok {
				s.Fail("C32", "create-failed", "createsub", "op %d: CreateSubscription failed: %v %T", oi, err, res)
				return
			}
			if owner, live := before[cr.SubscriptionID]; live {
				s.Fail("C32", "duplicate-id", "subscription-id-reissued", "op %d: session %d got subscription id %d which is still in use by session %d (live ids: %v, server has %v)", oi, me, cr.SubscriptionID, owner, before, srvSubs())
				return
			}
			if cr.SubscriptionID == 0 {
				s.Fail("C32", "duplicate-id", "subscription-id-zero", "op %d: subscription id 0 issued", oi)
				return
			}
			ss.subs = append(ss.subs, cr.SubscriptionID)
			s.Probe("sub-created")
		case "deletesub":
			id, class := pickSub(me, op)
			subsBefore, itemsBefore := srvSubs(), srvItems()
			res, err := send(ss.c, &ua.DeleteSubscriptionsRequest{SubscriptionIDs: []uint32{id}})
			dr, ok := res.(*ua.DeleteSubscriptionsResponse)
			if !(class == "own" && r.FastDelete) {
				settle()
			}
			switch class {
			case "own":
				if err != nil || !ok || len(dr.Results) != 1 || dr.Results[0] != ua.StatusOK {
					s.Fail("C32", "own-op-failed", "deletesub", "op %d: deleting own subscription %d failed: %v %v", oi, id, err, res)
					return
				}
				for i, x := range ss.subs {
					if x == id {
						ss.subs = append(ss.subs[:i], ss.subs[i+1:]...)
						break
					}
				}
				ss.deadItem = append(ss.deadItem, ss.items[id]...)
				delete(ss.items, id)
				ss.deadSubs = append(ss.deadSubs, id)
				s.Probe("sub-deleted")
				s.Nontrivial()
			default:
				s.Probe("deletesub-" + class)
				// (an id the same session deleted a moment ago may still be registered while the
				// server tears the subscription down: either answer is right then)
				if err == nil && ok && len(dr.Results) == 1 && !isBad(dr.Results[0]) && !(class == "own-deleted" && (r.FastDelete || r.SlowTeardown)) {
					s.Fail("C32", "foreign-op-accepted", "deletesub-"+class+"-good", "op %d: session %d deleted %s subscription %d: status %v", oi, me, class, id, dr.Results[0])
					return
				}
				_, _ = subsBefore, itemsBefore
				if !victimsIntact(oi, "deletesub-"+class) {
					return
				}
			}
		case "createitems":
			id, class := pickSub(me, op)
			before := liveItems()
			itemsBefore := srvItems()
			req := &ua.CreateMonitoredItemsRequest{SubscriptionID: id, TimestampsToReturn: ua.TimestampsToReturnBoth}
			n := 1 + op.Idx%3
			for k := 0; k < n; k++ {
				req.ItemsToCreate = append(req.ItemsToCreate, opcua.NewMonitoredItemCreateRequestWithDefaults(e.nodeID(fmt.Sprintf("v%d", (op.Idx+k)%3)), ua.AttributeIDValue, uint32(100*me+k)))
			}
			res, err := send(ss.c, req)
			cr, ok := res.(*ua.CreateMonitoredItemsResponse)
			settle()
			if class == "own" {
				if err != nil || !ok || len(cr.Results) != n {
					s.Fail("C32", "own-op-failed", "createitems", "op %d: creating items on own subscription %d failed: %v %T", oi, id, err, res)
					return
				}
				seen := map[uint32]bool{}
				for _, it := range cr.Results {
					if it.StatusCode != ua.StatusOK {
						continue
					}
					if owner, live := before[it.MonitoredItemID]; live || seen[it.MonitoredItemID] {
						s.Fail("C32", "duplicate-id", "item-id-reissued", "op %d: monitored item id %d is still in use (session %d)", oi, it.MonitoredItemID, owner)
						return
					}
					seen[it.MonitoredItemID] = true
					ss.items[id] = append(ss.items[id], it.MonitoredItemID)
				}
				s.Probe("items-created")
			} else {
				s.Probe("createitems-" + class)
				good := false
				if err == nil && ok {
					for _, it := range cr.Results {
						if it != nil && !isBad(it.StatusCode) {
							good = true
						}
					}
				}
				// (items of subscriptions deleted a moment ago may still be disappearing: only new ids count)
				grew := false
				was := map[uint32]bool{}
				for _, x := range itemsBefore {
					was[x] = true
				}
				for _, x := range srvItems() {
					if !was[x] {
						grew = true
					}
				}
				if (good || grew) && !(class == "own-deleted" && (r.FastDelete || r.SlowTeardown)) {
					s.Fail("C32", "foreign-op-accepted", "createitems-"+class, "op %d: session %d created items on %s subscription %d: err=%v items %v -> %v", oi, me, class, id, err, itemsBefore, srvItems())
					return
				}
			}
		case "deleteitems", "setmode":
			sub, item, class := pickItem(me, op)
			itemsBefore := srvItems()
			modesBefore := srvItemModes()
			var st ua.StatusCode
			var err error
			var okResp bool
			if op.Kind == "deleteitems" {
				var res ua.Response
				res, err = send(ss.c, &ua.DeleteMonitoredItemsRequest{SubscriptionID: sub, MonitoredItemIDs: []uint32{item}})
				if dr, ok := res.(*ua.DeleteMonitoredItemsResponse); ok && len(dr.Results) == 1 {
					okResp, st = true, dr.Results[0]
				}
			} else {
				var res ua.Response
				res, err = send(ss.c, &ua.SetMonitoringModeRequest{SubscriptionID: sub, MonitoringMode: ua.MonitoringModeSampling, MonitoredItemIDs: []uint32{item}})
				if dr, ok := res.(*ua.SetMonitoringModeResponse); ok && len(dr.Results) == 1 {
					okResp, st = true, dr.Results[0]
				}
			}
			settle()
			if class == "own" {
				if err != nil || !okResp || st != ua.StatusOK {
					s.Fail("C32", "own-op-failed", op.Kind, "op %d: %s on own item %d failed: %v %v", oi, op.Kind, item, err, st)
					return
				}
				if op.Kind == "deleteitems" {
					for i, x := range ss.items[sub] {
						if x == item {
							ss.items[sub] = append(ss.items[sub][:i], ss.items[sub][i+1:]...)
							break
						}
					}
					ss.deadItem = append(ss.deadItem, item)
					for _, x := range srvItems() {
						if x == item {
							s.Fail("C32", "own-op-no-effect", "deleteitems", "op %d: own item %d still on the server after a Good delete", oi, item)
							return
						}
					}
				}
				if op.Kind == "setmode" {
					modeOf[item] = ua.MonitoringModeSampling
				}
				s.Probe(op.Kind + "-own")
				s.Nontrivial()
			} else {
				s.Probe(op.Kind + "-" + class)
				if err == nil && okResp && !isBad(st) && !(class == "own-deleted" && (r.FastDelete || r.SlowTeardown)) {
					s.Fail("C32", "foreign-op-accepted", op.Kind+"-"+class+"-good", "op %d: session %d %s on %s item %d returned %v", oi, me, op.Kind, class, item, st)
					return
				}
				_, _ = modesBefore, itemsBefore
				if !victimsIntact(oi, op.Kind+"-"+class) {
					return
				}
			}
		}
	}
	// final cross check: everything the model holds live is on the server
	settle()
	have := map[uint32]bool{}
	for _, id := range srvSubs() {
		have[id] = true
	}
	for id, owner := range liveSubs() {
		if !have[id] {
			s.Fail("C32", "lost", "live-subscription-missing", "subscription %d of session %d is live in the model but not on the server (server has %v)", id, owner, srvSubs())
			return
		}
	}
	haveI := map[uint32]bool{}
	for _, id := range srvItems() {
		haveI[id] = true
	}
	for id, owner := range liveItems() {
		if !haveI[id] {
			s.Fail("C32", "lost", "live-item-missing", "monitored item %d of session %d is live in the model but not on the server", id, owner)
			return
		}
	}
}

func (r *c32Run) Finish(s *sim.Sim) {}

func init() {
	Register(&Scenario{Name: "c32", Props: []string{"C32"}, Horizon: 10 * time.Minute, MaxSteps: 600000, New: func() Run { return &c32Run{} }, StuckProperty: "HARNESS"})
}
