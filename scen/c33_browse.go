//go:build verif

package scen

import (
	"fmt"
	"sort"
	"strconv"
	"strings"
	"time"

	"github.com/gopcua/opcua"
	"github.com/gopcua/opcua/id"
	"github.com/gopcua/opcua/server"
	"github.com/gopcua/opcua/ua"

	"verif/sim"
)

// C33: browse returns exactly the matching references.

type c33Q struct {
	Node    int    `json:"node"` // index into the sorted list of all nodes
	Dir     int    `json:"dir"`
	RefType uint32 `json:"ref_type"`
	Sub     bool   `json:"subtypes"`
	Mask    uint32 `json:"mask"`
	// Custom > 0: the requested reference type is c33CustomTypes[Custom-1] (types with
	// string / GUID / opaque / numeric ids in the added namespace, and ids of no node)
	Custom int `json:"custom_ref_type,omitempty"`
}

type c33Run struct {
	Queries []c33Q `json:"queries"`
	Writer  bool   `json:"concurrent_writer"`
}

func (r *c33Run) Sample() any { return r }

var c33RefTypes = []uint32{0, id.References, id.HierarchicalReferences, id.NonHierarchicalReferences, id.HasChild, id.Aggregates,
	id.HasComponent, id.HasProperty, id.Organizes, id.HasSubtype, id.HasTypeDefinition, id.HasEventSource, id.HasNotifier, id.HasOrderedComponent, id.HasModellingRule, 9999}

// reference types outside namespace 0: name -> how the node id is built
var c33CustomTypes = []string{"s:FeedsInto", "s:MonitoredBy", "i:7001", "g:feeds", "b:opaque", "s:NoSuchType", "s0:NoSuchType", "i:0", "i:35"}

func c33CustomID(ns uint16, spec string) *ua.NodeID {
	kind, name, _ := strings.Cut(spec, ":")
	switch kind {
	case "s":
		return ua.NewStringNodeID(ns, name)
	case "s0":
		return ua.NewStringNodeID(0, name)
	case "g":
		return ua.NewGUIDNodeID(ns, "AAAABBBB-CCDD-EEFF-0102-0123456789AB")
	case "b":
		return ua.NewByteStringNodeID(ns, []byte(name))
	}
	n, _ := strconv.Atoi(name)
	return ua.NewNumericNodeID(ns, uint32(n))
}

var c33Masks = []uint32{0, 1, 2, 3, 4, 8, 16, 32, 64, 128, 255, 1 | 8, 2 | 32}

func (r *c33Run) Setup(s *sim.Sim) {
	p := s.Plan
	s.DrawPolicy()
	n := 30 + p.Intn(120)
	for i := 0; i < n; i++ {
		q := c33Q{Node: p.Intn(1 << 20), Dir: p.Intn(3), RefType: c33RefTypes[p.Intn(len(c33RefTypes))], Sub: p.Bool(), Mask: c33Masks[p.Intn(len(c33Masks))]}
		if p.Intn(4) == 0 {
			q.Custom = 1 + p.Intn(len(c33CustomTypes))
			q.Node = -1 - p.Intn(8) // one of the nodes that carry custom references (or are their targets)
			if p.Intn(3) == 0 {
				q.RefType = sim.Pick(p, uint32(id.NonHierarchicalReferences), id.References, id.Organizes, id.HierarchicalReferences)
				q.Custom = 0 // a standard supertype of the custom types
			}
		}
		r.Queries = append(r.Queries, q)
	}
	r.Writer = p.Bool()
}

type c33Key struct {
	typ, target string
	fwd         bool
}

func (r *c33Run) Main(s *sim.Sim) {
	e, err := startServer(s, func(e *env) {
		// some extra structure in the added namespace
		f := server.NewFolderNode(e.nodeID("folder"), "folder")
		e.ns.AddNode(f)
		for i := 0; i < 4; i++ {
			v := e.ns.AddNewVariableStringNode(fmt.Sprintf("v%d", i), int32(i))
			f.AddRef(v, server.RefTypeIDHasComponent, true)
			v.AddRef(f, server.RefTypeIDHasComponent, false)
		}
		o := server.NewFolderNode(e.nodeID("obj"), "obj")
		e.ns.AddNode(o)
		f.AddRef(o, server.RefTypeIDOrganizes, true)
		o.AddRef(f, server.RefTypeIDOrganizes, false)
		e.ns.Objects().AddRef(f, server.RefTypeIDOrganizes, true)
		// reference types of our own, with every kind of node id:
		//   NonHierarchicalReferences > FeedsInto (string) > MonitoredBy (string) > opaque
		//   Organizes > ns;i=7001 > GUID type
		ns := e.ns.ID()
		mkType := func(spec string) *server.Node {
			n := server.NewFolderNode(c33CustomID(ns, spec), spec)
			n.SetNodeClass(ua.NodeClassReferenceType)
			e.ns.AddNode(n)
			return n
		}
		feeds, monby, num, guid, opq := mkType("s:FeedsInto"), mkType("s:MonitoredBy"), mkType("i:7001"), mkType("g:feeds"), mkType("b:opaque")
		sub := server.RefType(id.HasSubtype)
		if ns0, err := e.srv.Namespace(0); err == nil {
			if nh := ns0.Node(ua.NewNumericNodeID(0, id.NonHierarchicalReferences)); nh != nil {
				nh.AddRef(feeds, sub, true)
			}
			if org := ns0.Node(ua.NewNumericNodeID(0, id.Organizes)); org != nil {
				org.AddRef(num, sub, true)
			}
		}
		feeds.AddRef(monby, sub, true)
		monby.AddRef(opq, sub, true)
		num.AddRef(guid, sub, true)
		// nodes that carry references of those types (both directions)
		mkRef := func(typ *server.Node, target *server.Node, fwd bool) *ua.ReferenceDescription {
			return &ua.ReferenceDescription{ReferenceTypeID: typ.ID(), IsForward: fwd, NodeID: ua.NewExpandedNodeID(target.ID(), "", 0),
				BrowseName: target.BrowseName(), DisplayName: target.DisplayName(), NodeClass: target.NodeClass(), TypeDefinition: target.DataType()}
		}
		tg := []*server.Node{e.ns.Node(e.nodeID("v0")), e.ns.Node(e.nodeID("v1")), f, o}
		types := []*server.Node{feeds, monby, num, guid, opq}
		for i := 0; i < 4; i++ {
			var refs []*ua.ReferenceDescription
			for k, typ := range types {
				if (i+k)%2 == 0 || i == 3 {
					refs = append(refs, mkRef(typ, tg[(i+k)%len(tg)], (i+k)%3 != 0))
				}
			}
			refs = append(refs, mkRef(e.ns.Node(e.nodeID("folder")), f, false)) // a reference whose type is not a reference type at all
			base := server.NewFolderNode(e.nodeID(fmt.Sprintf("cx%d", i)), fmt.Sprintf("cx%d", i))
			attr := map[ua.AttributeID]*ua.DataValue{}
			for _, a := range []ua.AttributeID{ua.AttributeIDNodeClass, ua.AttributeIDBrowseName, ua.AttributeIDDisplayName, ua.AttributeIDDescription, ua.AttributeIDEventNotifier} {
				if v, err := base.Attribute(a); err == nil && v != nil {
					attr[a] = v.Value
				}
			}
			e.ns.AddNode(server.NewNode(e.nodeID(fmt.Sprintf("cx%d", i)), attr, refs, nil))
		}
	})
	if err != nil {
		s.Fail("HARNESS", "setup", "server", "%v", err)
		return
	}
	defer e.stop()

	// ground truth: all nodes with raw references, and the subtype relation
	var all []*server.Node
	byID := map[string]*server.Node{}
	for _, ns := range e.srv.Namespaces() {
		nns, ok := ns.(*server.NodeNameSpace)
		if !ok {
			continue
		}
		for _, stale := range nns.VerifNodes() {
			// the namespace's node list keeps replaced nodes; the node that is
			// served is the one the id resolves to
			n := nns.Node(stale.ID())
			if n != nil && byID[n.ID().String()] == nil {
				byID[n.ID().String()] = n
				all = append(all, n)
			}
		}
	}
	sort.Slice(all, func(i, j int) bool { return all[i].ID().String() < all[j].ID().String() })
	hasSubtype := ua.NewNumericNodeID(0, id.HasSubtype).String()
	children := map[string][]string{} // type -> direct subtypes
	rebuild := func() {
		children = map[string][]string{}
		for _, n := range all {
			for _, ref := range n.VerifRefs() {
				if ref.ReferenceTypeID != nil && ref.ReferenceTypeID.String() == hasSubtype && ref.IsForward && ref.NodeID != nil {
					children[n.ID().String()] = append(children[n.ID().String()], ref.NodeID.NodeID.String())
				}
			}
		}
	}
	rebuild()
	var isSub func(t, of string, depth int) bool
	isSub = func(t, of string, depth int) bool {
		if depth > 64 {
			return false
		}
		for _, c := range children[of] {
			if c == t || isSub(t, c, depth+1) {
				return true
			}
		}
		return false
	}

	c, err := newClient(opcua.AutoReconnect(false), opcua.RequestTimeout(10*time.Second))
	if err == nil {
		err = c.Connect(e.ctx)
	}
	if err != nil {
		s.Fail("HARNESS", "setup", "connect", "%v", err)
		return
	}
	defer c.Close(e.ctx)
	stop := make(chan struct{})
	if r.Writer {
		w, err := newClient(opcua.AutoReconnect(false))
		if err == nil && w.Connect(e.ctx) == nil {
			go func() {
				defer w.Close(e.ctx)
				for i := 0; ; i++ {
					select {
					case <-stop:
						return
					default:
					}
					w.Write(e.ctx, writeReq(e.nodeID("v0"), int32(i)))
				}
			}()
		}
	}
	defer close(stop)

	// the application extends the type hierarchy while clients browse: a new reference
	// type node is added at one point of the run, and only later hooked under its
	// supertype (the order ImportNodeSet uses: nodes first, references second)
	var lateType *server.Node
	for qi, q := range r.Queries {
		switch qi {
		case len(r.Queries) / 3:
			lateType = server.NewFolderNode(c33CustomID(e.ns.ID(), "s:LateType"), "LateType")
			lateType.SetNodeClass(ua.NodeClassReferenceType)
			e.ns.AddNode(lateType)
			carrier := byID[e.nodeID("cx3").String()]
			tgt := byID[e.nodeID("v0").String()]
			if carrier != nil && tgt != nil {
				// a node that carries a reference of the new type
				attr := map[ua.AttributeID]*ua.DataValue{}
				for _, a := range []ua.AttributeID{ua.AttributeIDNodeClass, ua.AttributeIDBrowseName, ua.AttributeIDDisplayName, ua.AttributeIDDescription, ua.AttributeIDEventNotifier} {
					if v, err := carrier.Attribute(a); err == nil && v != nil {
						attr[a] = v.Value
					}
				}
				refs := []*ua.ReferenceDescription{{ReferenceTypeID: lateType.ID(), IsForward: true, NodeID: ua.NewExpandedNodeID(tgt.ID(), "", 0),
					BrowseName: tgt.BrowseName(), DisplayName: tgt.DisplayName(), NodeClass: tgt.NodeClass(), TypeDefinition: tgt.DataType()}}
				nn := e.ns.AddNode(server.NewNode(e.nodeID("late-carrier"), attr, refs, nil))
				byID[nn.ID().String()] = nn
				all = append(all, nn)
			}
			byID[lateType.ID().String()] = lateType
			all = append(all, lateType)
			rebuild()
			s.Probe("reference-type-node-added")
		case 2 * len(r.Queries) / 3:
			if lateType != nil {
				if sup := byID[c33CustomID(e.ns.ID(), "s:FeedsInto").String()]; sup != nil {
					sup.AddRef(lateType, server.RefType(id.HasSubtype), true)
					rebuild()
					s.Probe("reference-type-hooked-under-supertype")
				}
			}
		}
		var n *server.Node
		if q.Node < 0 {
			names := []string{"cx0", "cx1", "cx2", "cx3", "v0", "late-carrier", "folder", "late-carrier"}
			n = byID[e.nodeID(names[(-1-q.Node)%len(names)]).String()]
		}
		if n == nil {
			if q.Node < 0 {
				q.Node = -q.Node
			}
			n = all[q.Node%len(all)]
		}
		var want []c33Key
		reqType := ua.NewNumericNodeID(0, q.RefType)
		allTypes := q.RefType == 0
		if q.Custom > 0 {
			reqType = c33CustomID(e.ns.ID(), c33CustomTypes[q.Custom-1])
			allTypes = false
			s.Probe("custom-reference-type-requested")
		}
		for _, ref := range n.VerifRefs() {
			if ref.NodeID == nil || ref.ReferenceTypeID == nil {
				continue // cannot be expressed in a browse result at all
			}
			if ref.BrowseName == nil || ref.DisplayName == nil || ref.TypeDefinition == nil {
				s.Probe("ref-with-missing-fields")
				continue
			}
			switch q.Dir {
			case 0:
				if !ref.IsForward {
					continue
				}
			case 1:
				if ref.IsForward {
					continue
				}
			}
			rt := ref.ReferenceTypeID.String()
			if !allTypes && rt != reqType.String() {
				if !q.Sub || !isSub(rt, reqType.String(), 0) {
					continue
				}
				s.Probe("matched-as-subtype")
			}
			if q.Mask != 0 {
				class := uint32(ref.NodeClass)
				if q.Mask&class == 0 {
					continue
				}
			}
			if ref.ReferenceTypeID.Namespace() != 0 {
				s.Probe("custom-typed-reference-expected")
			}
			want = append(want, c33Key{rt, ref.NodeID.NodeID.String(), ref.IsForward})
		}
		res, err := c.Browse(e.ctx, &ua.BrowseRequest{NodesToBrowse: []*ua.BrowseDescription{{
			NodeID: n.ID(), BrowseDirection: ua.BrowseDirection(q.Dir), ReferenceTypeID: reqType, IncludeSubtypes: q.Sub, NodeClassMask: q.Mask, ResultMask: 0x3f}}})
		if err != nil || len(res.Results) != 1 {
			s.Fail("C33", "browse-failed", "service-error", "query %d %+v on %s: %v", qi, q, n.ID(), err)
			return
		}
		br := res.Results[0]
		if br.StatusCode != ua.StatusOK {
			s.Fail("C33", "browse-failed", "bad-status", "query %d %+v on %s: status %v", qi, q, n.ID(), br.StatusCode)
			return
		}
		var got []c33Key
		for _, ref := range br.References {
			got = append(got, c33Key{ref.ReferenceTypeID.String(), ref.NodeID.NodeID.String(), ref.IsForward})
		}
		less := func(a, b c33Key) bool {
			if a.typ != b.typ {
				return a.typ < b.typ
			}
			if a.target != b.target {
				return a.target < b.target
			}
			return !a.fwd && b.fwd
		}
		sort.Slice(got, func(i, j int) bool { return less(got[i], got[j]) })
		sort.Slice(want, func(i, j int) bool { return less(want[i], want[j]) })
		if len(want) > 0 {
			s.Nontrivial()
		}
		if fmt.Sprint(got) != fmt.Sprint(want) {
			extra, missing := diffKeys(got, want)
			kind := "missing-references"
			if len(extra) > 0 {
				kind = "extra-references"
			}
			s.Fail("C33", "browse-mismatch", kind, "browse of %s dir=%d type=%s subtypes=%v mask=%d: got %d refs, want %d; extra=%v missing=%v", n.ID(), q.Dir, reqType, q.Sub, q.Mask, len(got), len(want), extra, missing)
			return
		}
	}
}

func diffKeys(got, want []c33Key) (extra, missing []c33Key) {
	cnt := map[c33Key]int{}
	for _, k := range want {
		cnt[k]++
	}
	for _, k := range got {
		if cnt[k] > 0 {
			cnt[k]--
		} else {
			extra = append(extra, k)
		}
	}
	for k, n := range cnt {
		for i := 0; i < n; i++ {
			missing = append(missing, k)
		}
	}
	if len(extra) > 5 {
		extra = extra[:5]
	}
	if len(missing) > 5 {
		missing = missing[:5]
	}
	return
}

func (r *c33Run) Finish(s *sim.Sim) {}

func init() {
	Register(&Scenario{Name: "c33", Props: []string{"C33"}, Horizon: 10 * time.Minute, MaxSteps: 600000, New: func() Run { return &c33Run{} }, StuckProperty: "HARNESS"})
}
