//go:build verif

package scen

import (
	"fmt"
	"sort"
	"time"

	"github.com/gopcua/opcua"
	"github.com/gopcua/opcua/id"
	"github.com/gopcua/opcua/server"
	"github.com/gopcua/opcua/ua"

	"verif/sim"
)

// C33: browse returns exactly the matching references.

type c33Q struct {
	Node    int    `json:"node"` // index into the sorted list of all nodes
	Dir     int    `json:"dir"`
	RefType uint32 `json:"ref_type"`
	Sub     bool   `json:"subtypes"`
	Mask    uint32 `json:"mask"`
}

type c33Run struct {
	Queries []c33Q `json:"queries"`
	Writer  bool   `json:"concurrent_writer"`
}

func (r *c33Run) Sample() any { return r }

var c33RefTypes = []uint32{0, id.References, id.HierarchicalReferences, id.NonHierarchicalReferences, id.HasChild, id.Aggregates,
	id.HasComponent, id.HasProperty, id.Organizes, id.HasSubtype, id.HasTypeDefinition, id.HasEventSource, id.HasNotifier, id.HasOrderedComponent, id.HasModellingRule, 9999}

var c33Masks = []uint32{0, 1, 2, 3, 4, 8, 16, 32, 64, 128, 255, 1 | 8, 2 | 32}

func (r *c33Run) Setup(s *sim.Sim) {
	p := s.Plan
	s.DrawPolicy()
	n := 30 + p.Intn(120)
	for i := 0; i < n; i++ {
		r.Queries = append(r.Queries, c33Q{Node: p.Intn(1 << 20), Dir: p.Intn(3), RefType: c33RefTypes[p.Intn(len(c33RefTypes))], Sub: p.Bool(), Mask: c33Masks[p.Intn(len(c33Masks))]})
	}
	r.Writer = p.Bool()
}

type c33Key struct {
	typ, target string
	fwd         bool
}

func (r *c33Run) Main(s *sim.Sim) {
	e, err := startServer(s, func(e *env) {
		// some extra structure in the added namespace
		f := server.NewFolderNode(e.nodeID("folder"), "folder")
		e.ns.AddNode(f)
		for i := 0; i < 4; i++ {
			v := e.ns.AddNewVariableStringNode(fmt.Sprintf("v%d", i), int32(i))
			f.AddRef(v, server.RefTypeIDHasComponent, true)
			v.AddRef(f, server.RefTypeIDHasComponent, false)
		}
		o := server.NewFolderNode(e.nodeID("obj"), "obj")
		e.ns.AddNode(o)
		f.AddRef(o, server.RefTypeIDOrganizes, true)
		o.AddRef(f, server.RefTypeIDOrganizes, false)
		e.ns.Objects().AddRef(f, server.RefTypeIDOrganizes, true)
	})
	if err != nil {
		s.Fail("HARNESS", "setup", "server", "%v", err)
		return
	}
	defer e.stop()

	// ground truth: all nodes with raw references, and the subtype relation
	var all []*server.Node
	byID := map[string]*server.Node{}
	for _, ns := range e.srv.Namespaces() {
		nns, ok := ns.(*server.NodeNameSpace)
		if !ok {
			continue
		}
		for _, stale := range nns.VerifNodes() {
			// the namespace's node list keeps replaced nodes; the node that is
			// served is the one the id resolves to
			n := nns.Node(stale.ID())
			if n != nil && byID[n.ID().String()] == nil {
				byID[n.ID().String()] = n
				all = append(all, n)
			}
		}
	}
	sort.Slice(all, func(i, j int) bool { return all[i].ID().String() < all[j].ID().String() })
	hasSubtype := ua.NewNumericNodeID(0, id.HasSubtype).String()
	children := map[string][]string{} // type -> direct subtypes
	for _, n := range all {
		for _, ref := range n.VerifRefs() {
			if ref.ReferenceTypeID != nil && ref.ReferenceTypeID.String() == hasSubtype && ref.IsForward && ref.NodeID != nil {
				children[n.ID().String()] = append(children[n.ID().String()], ref.NodeID.NodeID.String())
			}
		}
	}
	var isSub func(t, of string, depth int) bool
	isSub = func(t, of string, depth int) bool {
		if depth > 64 {
			return false
		}
		for _, c := range children[of] {
			if c == t || isSub(t, c, depth+1) {
				return true
			}
		}
		return false
	}

	c, err := newClient(opcua.AutoReconnect(false), opcua.RequestTimeout(10*time.Second))
	if err == nil {
		err = c.Connect(e.ctx)
	}
	if err != nil {
		s.Fail("HARNESS", "setup", "connect", "%v", err)
		return
	}
	defer c.Close(e.ctx)
	stop := make(chan struct{})
	if r.Writer {
		w, err := newClient(opcua.AutoReconnect(false))
		if err == nil && w.Connect(e.ctx) == nil {
			go func() {
				defer w.Close(e.ctx)
				for i := 0; ; i++ {
					select {
					case <-stop:
						return
					default:
					}
					w.Write(e.ctx, writeReq(e.nodeID("v0"), int32(i)))
				}
			}()
		}
	}
	defer close(stop)

	for qi, q := range r.Queries {
		n := all[q.Node%len(all)]
		var want []c33Key
		reqType := ua.NewNumericNodeID(0, q.RefType)
		for _, ref := range n.VerifRefs() {
			if ref.NodeID == nil || ref.ReferenceTypeID == nil {
				continue // cannot be expressed in a browse result at all
			}
			if ref.BrowseName == nil || ref.DisplayName == nil || ref.TypeDefinition == nil {
				s.Probe("ref-with-missing-fields")
				continue
			}
			switch q.Dir {
			case 0:
				if !ref.IsForward {
					continue
				}
			case 1:
				if ref.IsForward {
					continue
				}
			}
			rt := ref.ReferenceTypeID.String()
			if q.RefType != 0 && rt != reqType.String() {
				if !q.Sub || !isSub(rt, reqType.String(), 0) {
					continue
				}
				s.Probe("matched-as-subtype")
			}
			if q.Mask != 0 {
				class := uint32(ref.NodeClass)
				if q.Mask&class == 0 {
					continue
				}
			}
			want = append(want, c33Key{rt, ref.NodeID.NodeID.String(), ref.IsForward})
		}
		res, err := c.Browse(e.ctx, &ua.BrowseRequest{NodesToBrowse: []*ua.BrowseDescription{{
			NodeID: n.ID(), BrowseDirection: ua.BrowseDirection(q.Dir), ReferenceTypeID: reqType, IncludeSubtypes: q.Sub, NodeClassMask: q.Mask, ResultMask: 0x3f}}})
		if err != nil || len(res.Results) != 1 {
			s.Fail("C33", "browse-failed", "service-error", "query %d %+v on %s: %v", qi, q, n.ID(), err)
			return
		}
		br := res.Results[0]
		if br.StatusCode != ua.StatusOK {
			s.Fail("C33", "browse-failed", "bad-status", "query %d %+v on %s: status %v", qi, q, n.ID(), br.StatusCode)
			return
		}
		var got []c33Key
		for _, ref := range br.References {
			got = append(got, c33Key{ref.ReferenceTypeID.String(), ref.NodeID.NodeID.String(), ref.IsForward})
		}
		less := func(a, b c33Key) bool {
			if a.typ != b.typ {
				return a.typ < b.typ
			}
			if a.target != b.target {
				return a.target < b.target
			}
			return !a.fwd && b.fwd
		}
		sort.Slice(got, func(i, j int) bool { return less(got[i], got[j]) })
		sort.Slice(want, func(i, j int) bool { return less(want[i], want[j]) })
		if len(want) > 0 {
			s.Nontrivial()
		}
		if fmt.Sprint(got) != fmt.Sprint(want) {
			extra, missing := diffKeys(got, want)
			kind := "missing-references"
			if len(extra) > 0 {
				kind = "extra-references"
			}
			s.Fail("C33", "browse-mismatch", kind, "browse of %s dir=%d type=i=%d subtypes=%v mask=%d: got %d refs, want %d; extra=%v missing=%v", n.ID(), q.Dir, q.RefType, q.Sub, q.Mask, len(got), len(want), extra, missing)
			return
		}
	}
}

func diffKeys(got, want []c33Key) (extra, missing []c33Key) {
	cnt := map[c33Key]int{}
	for _, k := range want {
		cnt[k]++
	}
	for _, k := range got {
		if cnt[k] > 0 {
			cnt[k]--
		} else {
			extra = append(extra, k)
		}
	}
	for k, n := range cnt {
		for i := 0; i < n; i++ {
			missing = append(missing, k)
		}
	}
	if len(extra) > 5 {
		extra = extra[:5]
	}
	if len(missing) > 5 {
		missing = missing[:5]
	}
	return
}

func (r *c33Run) Finish(s *sim.Sim) {}

func init() {
	Register(&Scenario{Name: "c33", Props: []string{"C33"}, Horizon: 10 * time.Minute, MaxSteps: 600000, New: func() Run { return &c33Run{} }, StuckProperty: "HARNESS"})
}
