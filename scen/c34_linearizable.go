//go:build verif

package scen

import (
	"fmt"
	"strings"
	"sync"
	"time"

	"github.com/anishathalye/porcupine"
	"github.com/gopcua/opcua"
	"github.com/gopcua/opcua/server"
	"github.com/gopcua/opcua/ua"

	"verif/sim"
)

// C34: concurrent reads and writes of node values are linearizable.

type c34Op struct {
	Client int     `json:"c"`
	Write  bool    `json:"w"`
	Nodes  []int   `json:"n"`
	Vals   []int32 `json:"v,omitempty"`
	Think  int     `json:"think_ms"`
}

type c34Rec struct {
	client    int
	node      int
	write     bool
	val       int32 // written or read
	ok        bool  // operation result known good
	maybe     bool  // write whose outcome is unknown (call failed)
	call, ret int64
}

type c34Run struct {
	Clients      int       `json:"clients"`
	Nodes        int       `json:"nodes"` // last one lives in a map namespace
	Ops          [][]c34Op `json:"ops"`   // per client
	Latency      []string  `json:"latency"`
	RstAt        int       `json:"rst_after_ops"` // -1: no fault; else reset client 0's connection after that many ops overall
	lat          []time.Duration
	slowPermille int
	mu           sync.Mutex
	recs         []c34Rec
	opsDone      int
	failures     int
}

func (r *c34Run) Sample() any { return r }

func (r *c34Run) Setup(s *sim.Sim) {
	p := s.Plan
	s.DrawPolicy()
	// computation takes no simulated time, so requests that arrive half a millisecond
	// apart never overlap inside the server by themselves: in half of the runs server
	// goroutines are held for a drawn (simulated) moment where they start or hand over
	if p.Bool() {
		r.slowPermille = sim.Pick(p, 100, 300, 600) // switched on once the clients are connected
		s.SlowMax = 40
		s.SlowDurs = []time.Duration{100 * time.Microsecond, time.Millisecond, 3 * time.Millisecond, 8 * time.Millisecond}
		s.SlowMatch = func(label string) bool {
			return strings.HasPrefix(label, "go:server.") || strings.HasPrefix(label, "send:server.")
		}
	}
	r.Clients = 2 + p.Intn(4)
	r.Nodes = 1 + p.Intn(3)
	total := 8 + p.Intn(40)
	r.Ops = make([][]c34Op, r.Clients)
	next := int32(0)
	for i := 0; i < total; i++ {
		c := p.Intn(r.Clients)
		op := c34Op{Client: c, Write: p.Intn(2) == 0, Think: sim.Pick(p, 0, 0, 1, 5)}
		k := 1
		if p.Chance(1, 4) {
			k = 1 + p.Intn(r.Nodes)
		}
		seen := map[int]bool{}
		for len(op.Nodes) < k {
			n := p.Intn(r.Nodes)
			if seen[n] {
				continue
			}
			seen[n] = true
			op.Nodes = append(op.Nodes, n)
			if op.Write {
				next++
				op.Vals = append(op.Vals, next)
			}
		}
		r.Ops[c] = append(r.Ops[c], op)
	}
	for i := 0; i < r.Clients; i++ {
		l := sim.Pick(p, 0, time.Millisecond, 3*time.Millisecond, 10*time.Millisecond)
		r.lat = append(r.lat, l)
		r.Latency = append(r.Latency, l.String())
	}
	r.RstAt = -1
	if p.Chance(1, 4) {
		r.RstAt = p.Intn(total)
	}
}

func (r *c34Run) Main(s *sim.Sim) {
	var mapns *server.MapNamespace
	e, err := startServer(s, func(e *env) {
		for i := 0; i < r.Nodes-1; i++ {
			e.ns.AddNewVariableStringNode(fmt.Sprintf("n%d", i), int32(0))
		}
		mapns = server.NewMapNamespace(e.srv, "map")
		mapns.Data["m"] = int32(0)
	})
	if err != nil {
		s.Fail("HARNESS", "setup", "server", "%v", err)
		return
	}
	defer e.stop()
	nodeID := func(n int) *ua.NodeID {
		if n == r.Nodes-1 {
			return ua.NewStringNodeID(mapns.ID(), "m")
		}
		return e.nodeID(fmt.Sprintf("n%d", n))
	}
	var clients []*opcua.Client
	dialed := 0
	s.Net.OnConn = func(c *sim.Conn) {
		if dialed < len(r.lat) {
			c.C2S.Latency, c.S2C.Latency = r.lat[dialed], r.lat[dialed]
			c.C2S.Jitter, c.S2C.Jitter = r.lat[dialed]/2, r.lat[dialed]/2
		}
		dialed++
	}
	for i := 0; i < r.Clients; i++ {
		c, err := newClient(opcua.AutoReconnect(false), opcua.RequestTimeout(5*time.Second))
		if err != nil {
			s.Fail("HARNESS", "setup", "client", "%v", err)
			return
		}
		if err := c.Connect(e.ctx); err != nil {
			s.Fail("HARNESS", "setup", "connect", "%v", err)
			return
		}
		clients = append(clients, c)
	}
	conns := s.Net.Conns()
	s.SlowPermille = r.slowPermille
	var wg sync.WaitGroup
	for ci := range clients {
		wg.Add(1)
		go func(ci int) {
			defer wg.Done()
			c := clients[ci]
			for _, op := range r.Ops[ci] {
				if op.Think > 0 {
					time.Sleep(time.Duration(op.Think) * time.Millisecond)
				}
				// goroutines woken by timers of the same instant run in an order the runtime
				// does not fix: let the scheduler order them before they touch shared state
				s.Yield("c34.op")
				r.mu.Lock()
				r.opsDone++
				if r.RstAt >= 0 && r.opsDone == r.RstAt+1 && len(conns) > 0 {
					conns[0].Reset()
					s.Fault("rst")
				}
				r.mu.Unlock()
				call := int64(s.Event())
				if op.Write {
					req := &ua.WriteRequest{}
					for k, n := range op.Nodes {
						req.NodesToWrite = append(req.NodesToWrite, &ua.WriteValue{
							NodeID: nodeID(n), AttributeID: ua.AttributeIDValue,
							Value: &ua.DataValue{EncodingMask: ua.DataValueValue, Value: ua.MustVariant(op.Vals[k])},
						})
					}
					res, err := c.Write(e.ctx, req)
					ret := int64(s.Event())
					r.mu.Lock()
					for k, n := range op.Nodes {
						rec := c34Rec{client: ci, node: n, write: true, val: op.Vals[k], call: call, ret: ret}
						switch {
						case err != nil || res == nil || len(res.Results) != len(op.Nodes):
							rec.maybe = true
							r.failures++
						case res.Results[k] == ua.StatusOK:
							rec.ok = true
						default:
							// refused: no effect claimed; treat as maybe (it must not be required to be visible)
							rec.maybe = true
							r.failures++
						}
						r.recs = append(r.recs, rec)
					}
					r.mu.Unlock()
				} else {
					var ids []*ua.NodeID
					for _, n := range op.Nodes {
						ids = append(ids, nodeID(n))
					}
					res, err := c.Read(e.ctx, readReq(ids...))
					ret := int64(s.Event())
					r.mu.Lock()
					if err != nil || res == nil || len(res.Results) != len(op.Nodes) {
						r.failures++
					} else {
						for k, n := range op.Nodes {
							dv := res.Results[k]
							if dv == nil || dv.Status != ua.StatusOK || dv.Value == nil {
								r.failures++
								continue
							}
							v, ok := dv.Value.Value().(int32)
							if !ok {
								s.Fail("C34", "wrong-type", "read-type", "read of node %d returned %T %v", n, dv.Value.Value(), dv.Value.Value())
								continue
							}
							r.recs = append(r.recs, c34Rec{client: ci, node: n, val: v, ok: true, call: call, ret: ret})
						}
					}
					r.mu.Unlock()
				}
			}
		}(ci)
	}
	wg.Wait()
	if r.RstAt < 0 && r.failures > 0 {
		s.Probe("op-failed-without-fault")
	}
	for _, c := range clients {
		c.Close(e.ctx)
	}
}

func (r *c34Run) Finish(s *sim.Sim) {}

type c34In struct {
	write bool
	val   int32
}
type c34Out struct {
	val   int32
	maybe bool
}

var c34Model = porcupine.Model{
	Init: func() interface{} { return int32(0) },
	Step: func(state, input, output interface{}) (bool, interface{}) {
		in, out, st := input.(c34In), output.(c34Out), state.(int32)
		if in.write {
			return true, in.val
		}
		return out.val == st, st
	},
	Equal: func(a, b interface{}) bool { return a.(int32) == b.(int32) },
	DescribeOperation: func(input, output interface{}) string {
		in, out := input.(c34In), output.(c34Out)
		if in.write {
			return fmt.Sprintf("write(%d)", in.val)
		}
		return fmt.Sprintf("read->%d", out.val)
	},
}

// Post runs outside the bubble: porcupine uses real time.
func (r *c34Run) Post(s *sim.Sim) {
	const end = int64(1) << 40
	overlap := false
	for n := 0; n < r.Nodes; n++ {
		var ops []porcupine.Operation
		var maybes []c34Rec
		for _, rec := range r.recs {
			if rec.node != n {
				continue
			}
			switch {
			case rec.write && rec.ok:
				ops = append(ops, porcupine.Operation{ClientId: rec.client, Input: c34In{write: true, val: rec.val}, Call: rec.call, Output: c34Out{}, Return: rec.ret})
			case rec.write && rec.maybe:
				maybes = append(maybes, rec)
			case !rec.write:
				ops = append(ops, porcupine.Operation{ClientId: rec.client, Input: c34In{}, Call: rec.call, Output: c34Out{val: rec.val}, Return: rec.ret})
			}
		}
		// a write with unknown outcome may take effect at any time after its
		// invocation, or never: include it (open ended) only if some read saw it
		for _, m := range maybes {
			seen := false
			for _, rec := range r.recs {
				if rec.node == n && !rec.write && rec.val == m.val {
					seen = true
				}
			}
			if seen {
				ops = append(ops, porcupine.Operation{ClientId: m.client + 100, Input: c34In{write: true, val: m.val}, Call: m.call, Output: c34Out{maybe: true}, Return: end})
			}
		}
		for i := range ops {
			for j := range ops {
				if i != j && ops[i].ClientId != ops[j].ClientId && ops[i].Call < ops[j].Return && ops[j].Call < ops[i].Return {
					overlap = true
				}
			}
		}
		if len(ops) == 0 {
			continue
		}
		res, info := porcupine.CheckOperationsVerbose(c34Model, ops, 30*time.Second)
		switch res {
		case porcupine.Illegal:
			desc := ""
			for _, o := range ops {
				desc += fmt.Sprintf("  client %d [%d,%d] %s\n", o.ClientId, o.Call, o.Return, c34Model.DescribeOperation(o.Input, o.Output))
			}
			_ = info
			s.Fail("C34", "not-linearizable", "register", "history of node %d is not linearizable:\n%s", n, desc)
		case porcupine.Unknown:
			s.Probe("porcupine-inconclusive")
		}
	}
	if overlap {
		s.Nontrivial()
	}
}

func init() {
	Register(&Scenario{Name: "c34", Props: []string{"C34"}, Horizon: 5 * time.Minute, New: func() Run { return &c34Run{} }, StuckProperty: "HARNESS"})
}
