//go:build verif

package scen

import (
	"context"
	"fmt"
	"time"

	"github.com/gopcua/opcua"
	"github.com/gopcua/opcua/id"
	"github.com/gopcua/opcua/ua"
	"github.com/gopcua/opcua/uasc"

	"verif/sim"
)

// C35: services other than discovery and session setup require an
// activated session.

type c35Op struct {
	Kind  string `json:"k"`
	Token string `json:"t"` // null random created closed
	A     int    `json:"a"`
}

type c35Run struct {
	Ops []c35Op `json:"ops"`
}

func (r *c35Run) Sample() any { return r }

var c35Kinds = []string{"read", "write", "browse", "createsub", "deletesub", "createitems", "deleteitems", "setmode", "publish",
	"republish", "transfer", "modifysub", "setpublishing", "modifyitems", "settriggering", "translate", "registernodes", "unregisternodes",
	"call", "addnodes", "deletenodes", "queryfirst", "historyread", "historyupdate", "closesession", "cancel", "browsenext"}

func (r *c35Run) Setup(s *sim.Sim) {
	p := s.Plan
	s.DrawPolicy()
	n := 10 + p.Intn(40)
	for i := 0; i < n; i++ {
		r.Ops = append(r.Ops, c35Op{Kind: c35Kinds[p.Intn(len(c35Kinds))], Token: sim.Pick(p, "null", "random", "created", "closed", "closed-elsewhere"), A: p.Intn(8)})
	}
}

func (r *c35Run) Main(s *sim.Sim) {
	e, err := startServer(s, func(e *env) { e.ns.AddNewVariableStringNode("x", int32(5)) })
	if err != nil {
		s.Fail("HARNESS", "setup", "server", "%v", err)
		return
	}
	defer e.stop()
	ctx := context.Background()
	// observer / control: a properly connected client with a subscription and an item
	obs, err := newClient(opcua.AutoReconnect(false), opcua.RequestTimeout(5*time.Second))
	if err == nil {
		err = obs.Connect(ctx)
	}
	if err != nil {
		s.Fail("HARNESS", "setup", "observer", "%v", err)
		return
	}
	defer obs.Close(ctx)
	var obsSub, obsItem uint32
	{
		var cr *ua.CreateSubscriptionResponse
		err := obs.Send(ctx, &ua.CreateSubscriptionRequest{RequestedPublishingInterval: 1000, RequestedLifetimeCount: 100000, RequestedMaxKeepAliveCount: 10000, PublishingEnabled: true}, func(v ua.Response) error { cr, _ = v.(*ua.CreateSubscriptionResponse); return nil })
		if err != nil || cr == nil {
			s.Fail("HARNESS", "setup", "observer-sub", "%v", err)
			return
		}
		obsSub = cr.SubscriptionID
		var ir *ua.CreateMonitoredItemsResponse
		err = obs.Send(ctx, &ua.CreateMonitoredItemsRequest{SubscriptionID: obsSub, TimestampsToReturn: ua.TimestampsToReturnBoth, ItemsToCreate: []*ua.MonitoredItemCreateRequest{opcua.NewMonitoredItemCreateRequestWithDefaults(e.nodeID("x"), ua.AttributeIDValue, 1)}}, func(v ua.Response) error { ir, _ = v.(*ua.CreateMonitoredItemsResponse); return nil })
		if err != nil || ir == nil || len(ir.Results) != 1 {
			s.Fail("HARNESS", "setup", "observer-item", "%v", err)
			return
		}
		obsItem = ir.Results[0].MonitoredItemID
	}

	// the intruder: a secure channel without a session
	intr, err := newClient(opcua.AutoReconnect(false), opcua.RequestTimeout(5*time.Second))
	if err == nil {
		err = intr.Dial(ctx)
	}
	if err != nil {
		s.Fail("HARNESS", "setup", "intruder", "%v", err)
		return
	}
	defer intr.Close(ctx)
	sc := intr.SecureChannel()

	createSession := func(via *uasc.SecureChannel) *ua.NodeID {
		var tok *ua.NodeID
		via.SendRequest(ctx, &ua.CreateSessionRequest{ClientDescription: &ua.ApplicationDescription{ApplicationName: &ua.LocalizedText{}}, EndpointURL: srvURL, SessionName: "intr", ClientNonce: make([]byte, 32), RequestedSessionTimeout: 60000}, nil, func(v ua.Response) error {
			if cr, ok := v.(*ua.CreateSessionResponse); ok {
				tok = cr.AuthenticationToken
			}
			return nil
		})
		return tok
	}
	// a token of a session that was properly used and then closed
	closedTok := func() *ua.NodeID {
		c, err := newClient(opcua.AutoReconnect(false), opcua.RequestTimeout(5*time.Second))
		if err != nil || c.Dial(ctx) != nil {
			return nil
		}
		defer c.Close(ctx)
		tok := createSession(c.SecureChannel())
		if tok == nil {
			return nil
		}
		c.SecureChannel().SendRequest(ctx, &ua.ActivateSessionRequest{ClientSignature: &ua.SignatureData{}, UserIdentityToken: ua.NewExtensionObject(&ua.AnonymousIdentityToken{PolicyID: "anonymous_none"}), UserTokenSignature: &ua.SignatureData{}}, tok, func(ua.Response) error { return nil })
		c.SecureChannel().SendRequest(ctx, &ua.CloseSessionRequest{}, tok, func(ua.Response) error { return nil })
		return tok
	}()

	// a session that was created, activated and used on the intruder's own channel, then
	// activated and used on a second channel (what a reconnecting client does) and closed
	// there: its token must be dead on the first channel as well
	closedElsewhereTok := func() *ua.NodeID {
		act := func(via *uasc.SecureChannel, tok *ua.NodeID) bool {
			good := false
			via.SendRequest(ctx, &ua.ActivateSessionRequest{ClientSignature: &ua.SignatureData{}, UserIdentityToken: ua.NewExtensionObject(&ua.AnonymousIdentityToken{PolicyID: "anonymous_none"}), UserTokenSignature: &ua.SignatureData{}}, tok, func(v ua.Response) error {
				if ar, ok := v.(*ua.ActivateSessionResponse); ok && ar.ResponseHeader.ServiceResult == ua.StatusOK {
					good = true
				}
				return nil
			})
			return good
		}
		use := func(via *uasc.SecureChannel, tok *ua.NodeID) bool {
			good := false
			via.SendRequest(ctx, readReq(e.nodeID("x")), tok, func(v ua.Response) error {
				if rr, ok := v.(*ua.ReadResponse); ok && rr.ResponseHeader.ServiceResult == ua.StatusOK {
					good = true
				}
				return nil
			})
			return good
		}
		tok := createSession(sc)
		if tok == nil || !act(sc, tok) || !use(sc, tok) {
			return nil
		}
		c2, err := newClient(opcua.AutoReconnect(false), opcua.RequestTimeout(5*time.Second))
		if err != nil || c2.Dial(ctx) != nil {
			return nil
		}
		defer c2.Close(ctx)
		if !act(c2.SecureChannel(), tok) || !use(c2.SecureChannel(), tok) {
			s.Probe("session-transfer-refused")
			return nil
		}
		c2.SecureChannel().SendRequest(ctx, &ua.CloseSessionRequest{}, tok, func(ua.Response) error { return nil })
		s.Probe("session-closed-on-second-channel")
		return tok
	}()

	xid := e.nodeID("x")
	build := func(op c35Op) ua.Request {
		switch op.Kind {
		case "read":
			return readReq(xid)
		case "write":
			return writeReq(xid, int32(1000+op.A))
		case "browse":
			return &ua.BrowseRequest{View: &ua.ViewDescription{ViewID: ua.NewTwoByteNodeID(0)}, NodesToBrowse: []*ua.BrowseDescription{{NodeID: ua.NewNumericNodeID(0, id.ObjectsFolder), BrowseDirection: ua.BrowseDirectionBoth, ReferenceTypeID: ua.NewNumericNodeID(0, 0), IncludeSubtypes: true, ResultMask: 0x3f}}}
		case "createsub":
			return &ua.CreateSubscriptionRequest{RequestedPublishingInterval: 1000, RequestedLifetimeCount: 1000, RequestedMaxKeepAliveCount: 100, PublishingEnabled: true}
		case "deletesub":
			return &ua.DeleteSubscriptionsRequest{SubscriptionIDs: []uint32{obsSub}}
		case "createitems":
			return &ua.CreateMonitoredItemsRequest{SubscriptionID: obsSub, TimestampsToReturn: ua.TimestampsToReturnBoth, ItemsToCreate: []*ua.MonitoredItemCreateRequest{opcua.NewMonitoredItemCreateRequestWithDefaults(xid, ua.AttributeIDValue, 9)}}
		case "deleteitems":
			return &ua.DeleteMonitoredItemsRequest{SubscriptionID: obsSub, MonitoredItemIDs: []uint32{obsItem}}
		case "setmode":
			return &ua.SetMonitoringModeRequest{SubscriptionID: obsSub, MonitoringMode: ua.MonitoringModeDisabled, MonitoredItemIDs: []uint32{obsItem}}
		case "publish":
			return &ua.PublishRequest{SubscriptionAcknowledgements: []*ua.SubscriptionAcknowledgement{}}
		case "republish":
			return &ua.RepublishRequest{SubscriptionID: obsSub, RetransmitSequenceNumber: 1}
		case "transfer":
			return &ua.TransferSubscriptionsRequest{SubscriptionIDs: []uint32{obsSub}}
		case "modifysub":
			return &ua.ModifySubscriptionRequest{SubscriptionID: obsSub, RequestedPublishingInterval: 10}
		case "setpublishing":
			return &ua.SetPublishingModeRequest{SubscriptionIDs: []uint32{obsSub}}
		case "modifyitems":
			return &ua.ModifyMonitoredItemsRequest{SubscriptionID: obsSub}
		case "settriggering":
			return &ua.SetTriggeringRequest{SubscriptionID: obsSub, TriggeringItemID: obsItem}
		case "translate":
			return &ua.TranslateBrowsePathsToNodeIDsRequest{BrowsePaths: []*ua.BrowsePath{{StartingNode: xid, RelativePath: &ua.RelativePath{}}}}
		case "registernodes":
			return &ua.RegisterNodesRequest{NodesToRegister: []*ua.NodeID{xid}}
		case "unregisternodes":
			return &ua.UnregisterNodesRequest{NodesToUnregister: []*ua.NodeID{xid}}
		case "call":
			return &ua.CallRequest{MethodsToCall: []*ua.CallMethodRequest{{ObjectID: xid, MethodID: xid}}}
		case "addnodes":
			return &ua.AddNodesRequest{NodesToAdd: []*ua.AddNodesItem{}}
		case "deletenodes":
			return &ua.DeleteNodesRequest{NodesToDelete: []*ua.DeleteNodesItem{{NodeID: xid}}}
		case "queryfirst":
			return &ua.QueryFirstRequest{View: &ua.ViewDescription{ViewID: ua.NewTwoByteNodeID(0)}, Filter: &ua.ContentFilter{}}
		case "historyread":
			return &ua.HistoryReadRequest{HistoryReadDetails: ua.NewExtensionObject(nil)}
		case "historyupdate":
			return &ua.HistoryUpdateRequest{}
		case "closesession":
			return &ua.CloseSessionRequest{DeleteSubscriptions: true}
		case "cancel":
			return &ua.CancelRequest{RequestHandle: 1}
		case "browsenext":
			return &ua.BrowseNextRequest{ContinuationPoints: [][]byte{{1}}}
		}
		return readReq(xid)
	}
	type snap struct {
		val         int32
		subs, items int
		sessions    int
	}
	take := func() snap {
		var sn snap
		sn.val, _ = c31Val(e.ns.Node(xid))
		e.srv.SubscriptionService.Mu.Lock()
		sn.subs = len(e.srv.SubscriptionService.Subs)
		e.srv.SubscriptionService.Mu.Unlock()
		e.srv.MonitoredItemService.Mu.Lock()
		sn.items = len(e.srv.MonitoredItemService.Items)
		if it := e.srv.MonitoredItemService.Items[obsItem]; it != nil && it.Mode == ua.MonitoringModeDisabled {
			sn.items = -1
		}
		e.srv.MonitoredItemService.Mu.Unlock()
		return sn
	}
	for oi, op := range r.Ops {
		var tok *ua.NodeID
		switch op.Token {
		case "null":
			tok = nil
		case "random":
			tok = ua.NewNumericNodeID(0, uint32(123456+oi))
		case "created":
			tok = createSession(sc)
			if tok == nil {
				s.Fail("HARNESS", "setup", "createsession", "intruder cannot create a session")
				return
			}
		case "closed":
			tok = closedTok
			if tok == nil {
				continue
			}
		case "closed-elsewhere":
			tok = closedElsewhereTok
			if tok == nil {
				continue
			}
		}
		sessBefore := e.srv.VerifSessionCount()
		before := take()
		var resp ua.Response
		rctx, cancel := context.WithTimeout(ctx, 3*time.Second)
		err := sc.SendRequest(rctx, build(op), tok, func(v ua.Response) error { resp = v; return nil })
		cancel()
		time.Sleep(20 * time.Millisecond)
		after := take()
		s.Probe("op-" + op.Kind + "-" + op.Token)
		s.Nontrivial()
		if op.Kind == "publish" && err == ua.StatusBadTimeout {
			// a publish request that is parked without an answer: nothing was answered
			continue
		}
		served := false
		why := ""
		if err == nil && resp != nil {
			if !isBad(resp.Header().ServiceResult) {
				served = true
				why = fmt.Sprintf("service result %v (%T)", resp.Header().ServiceResult, resp)
			}
		}
		if served {
			s.Fail("C35", "served-without-session", op.Kind+"-"+op.Token, "op %d: %s with %s authentication token was answered: %s", oi, op.Kind, op.Token, why)
			return
		}
		if before != after {
			s.Fail("C35", "effect-without-session", op.Kind+"-"+op.Token, "op %d: %s with %s token changed the server: %+v -> %+v (err=%v)", oi, op.Kind, op.Token, before, after, err)
			return
		}
		if op.Kind == "closesession" && op.Token != "created" && e.srv.VerifSessionCount() != sessBefore {
			s.Fail("C35", "effect-without-session", "closesession-"+op.Token, "op %d: CloseSession with %s token changed the number of sessions %d -> %d", oi, op.Token, sessBefore, e.srv.VerifSessionCount())
			return
		}
	}
	// control: the same requests through the activated session are served
	for _, k := range []string{"read", "browse", "write", "createsub"} {
		var resp ua.Response
		err := obs.Send(ctx, build(c35Op{Kind: k}), func(v ua.Response) error { resp = v; return nil })
		if err != nil || resp == nil || isBad(resp.Header().ServiceResult) {
			s.Fail("C35", "control", "activated-session-refused-"+k, "%s through an activated session failed: %v", k, err)
			return
		}
	}
}

func (r *c35Run) Finish(s *sim.Sim) {}

func init() {
	Register(&Scenario{Name: "c35", Props: []string{"C35"}, Horizon: 10 * time.Minute, MaxSteps: 600000, New: func() Run { return &c35Run{} }, StuckProperty: "HARNESS"})
}
