//go:build verif

package scen

import (
	"bytes"
	"context"
	"fmt"
	"time"

	"github.com/gopcua/opcua"
	"github.com/gopcua/opcua/id"
	"github.com/gopcua/opcua/server"
	"github.com/gopcua/opcua/ua"

	"verif/refcodec"
	"verif/sim"
)

// C35 (second scenario): sessions whose activation was refused.
//
// On a secured channel (mode Sign or SignAndEncrypt) ActivateSession carries a
// client signature over the server certificate and nonce. A session that was
// created but whose activation the server *refused* (signature of zeros, empty
// signature, signature made with another key, signature over other data) is
// not an activated session: every session service sent with its token must be
// answered with an error and must have no effect. The control branch
// activates with a valid signature and must be served.

type c35sRun struct {
	Cfg     secCfg   `json:"cfg"`
	Variant string   `json:"activation"` // valid | zeros | empty | other-key | other-data | none-sent
	Ops     []string `json:"ops"`
}

func (r *c35sRun) Sample() any { return r }

func (r *c35sRun) Setup(s *sim.Sim) {
	p := s.Plan
	s.DrawPolicy()
	loadKeys()
	for i := 0; ; i++ {
		r.Cfg = drawSecCfg(p, true)
		if r.Cfg.ClientBits == 2048 && r.Cfg.ServerBits == 2048 {
			break
		}
		if i >= 40 { // an exhausted (minimised) tape draws the same configuration for ever
			r.Cfg.ClientBits, r.Cfg.ServerBits = 2048, 2048
			break
		}
	}
	r.Variant = sim.Pick(p, "valid", "zeros", "zeros", "empty", "other-key", "other-data", "none-sent")
	for i, n := 0, 2+p.Intn(5); i < n; i++ {
		r.Ops = append(r.Ops, sim.Pick(p, "read", "write", "browse", "createsub", "read", "write"))
	}
}

func (r *c35sRun) Main(s *sim.Sim) {
	sk, ck, ok := key("server", 2048), key("client", 2048), key("client", 1024)
	if r.Cfg.Policy != "Basic128Rsa15" && r.Cfg.Policy != "Basic256" {
		ok = key("server", 4096)
	}
	opts := []server.Option{server.EnableAuthMode(ua.UserTokenTypeAnonymous), server.Certificate(sk.Cert), server.PrivateKey(sk.Key),
		server.EnableSecurity("None", ua.MessageSecurityModeNone), server.EnableSecurity(r.Cfg.Policy, r.Cfg.mode())}
	e, err := startServer(s, func(e *env) { e.ns.AddNewVariableStringNode("x", int32(5)) }, opts...)
	if err != nil {
		s.Fail("HARNESS", "setup", "server", "%v", err)
		return
	}
	defer e.stop()
	ctx := context.Background()
	cl, err := opcua.NewClient(srvURL, opcua.SecurityPolicy(r.Cfg.uri()), opcua.SecurityMode(r.Cfg.mode()), opcua.Certificate(ck.Cert), opcua.PrivateKey(ck.Key),
		opcua.RemoteCertificate(sk.Cert), opcua.AutoReconnect(false), opcua.RequestTimeout(5*time.Second))
	if err == nil {
		dctx, cancel := context.WithTimeout(ctx, 20*time.Second)
		err = cl.Dial(dctx)
		cancel()
	}
	if err != nil {
		s.Fail("HARNESS", "setup", "dial", "secured channel %s/%d: %v", r.Cfg.Policy, r.Cfg.Mode, err)
		return
	}
	defer cl.Close(ctx)
	sc := cl.SecureChannel()
	var cs *ua.CreateSessionResponse
	err = sc.SendRequest(ctx, &ua.CreateSessionRequest{ClientDescription: &ua.ApplicationDescription{ApplicationURI: "urn:verif", ApplicationName: &ua.LocalizedText{}, ApplicationType: ua.ApplicationTypeClient},
		EndpointURL: srvURL, SessionName: "c35s", ClientNonce: make([]byte, 32), ClientCertificate: ck.Cert, RequestedSessionTimeout: 60000}, nil,
		func(v ua.Response) error { cs, _ = v.(*ua.CreateSessionResponse); return nil })
	if err != nil || cs == nil {
		s.Fail("HARNESS", "setup", "createsession", "%v", err)
		return
	}
	tok := cs.AuthenticationToken
	// the client signature
	sig, alg, err := sc.NewSessionSignature(cs.ServerCertificate, cs.ServerNonce)
	if err != nil {
		s.Fail("HARNESS", "setup", "signature", "%v", err)
		return
	}
	switch r.Variant {
	case "zeros":
		sig = make([]byte, len(sig))
	case "empty":
		sig = []byte{}
	case "other-key":
		// the same data signed with a key the server has never seen (reference implementation)
		s2, err2 := refcodec.Policies[r.Cfg.Policy].SignAsym(ok.Key, append(append([]byte(nil), cs.ServerCertificate...), cs.ServerNonce...))
		if err2 != nil || bytes.Equal(s2, sig) {
			s.Fail("HARNESS", "setup", "other-key-signature", "%v", err2)
			return
		}
		sig = s2
	case "other-data":
		if s2, _, err2 := sc.NewSessionSignature(cs.ServerCertificate, append([]byte{1}, cs.ServerNonce...)); err2 == nil {
			sig = s2
		}
	}
	activated := false
	if r.Variant != "none-sent" {
		act := &ua.ActivateSessionRequest{ClientSignature: &ua.SignatureData{Algorithm: alg, Signature: sig},
			UserIdentityToken: ua.NewExtensionObject(&ua.AnonymousIdentityToken{PolicyID: "anonymous_none"}), UserTokenSignature: &ua.SignatureData{}}
		var ar ua.Response
		aerr := sc.SendRequest(ctx, act, tok, func(v ua.Response) error { ar = v; return nil })
		activated = aerr == nil && ar != nil && !isBad(ar.Header().ServiceResult)
		if r.Variant == "valid" && !activated {
			s.Fail("C35", "control", "valid-activation-refused", "ActivateSession with a valid client signature failed on %s/%d: %v", r.Cfg.Policy, r.Cfg.Mode, aerr)
			return
		}
		if r.Variant != "valid" && activated {
			s.Fail("C35", "activation-accepted", "bad-client-signature-"+r.Variant, "ActivateSession with a %s client signature was answered Good on %s/%d", r.Variant, r.Cfg.Policy, r.Cfg.Mode)
			return
		}
	}
	if r.Variant != "valid" {
		s.Fault("activation-" + r.Variant)
	}
	s.Nontrivial()
	xid := e.nodeID("x")
	subs := func() int {
		e.srv.SubscriptionService.Mu.Lock()
		defer e.srv.SubscriptionService.Mu.Unlock()
		return len(e.srv.SubscriptionService.Subs)
	}
	for oi, op := range r.Ops {
		var req ua.Request
		switch op {
		case "read":
			req = readReq(xid)
		case "write":
			req = writeReq(xid, int32(100+oi))
		case "browse":
			req = &ua.BrowseRequest{View: &ua.ViewDescription{ViewID: ua.NewTwoByteNodeID(0)}, NodesToBrowse: []*ua.BrowseDescription{{NodeID: ua.NewNumericNodeID(0, id.ObjectsFolder), BrowseDirection: ua.BrowseDirectionForward, ReferenceTypeID: ua.NewNumericNodeID(0, id.HierarchicalReferences), IncludeSubtypes: true, ResultMask: 0x3f}}}
		default:
			req = &ua.CreateSubscriptionRequest{RequestedPublishingInterval: 1000, RequestedLifetimeCount: 100, RequestedMaxKeepAliveCount: 10, PublishingEnabled: true}
		}
		valBefore, _ := c31Val(e.ns.Node(xid))
		subsBefore := subs()
		var resp ua.Response
		rctx, cancel := context.WithTimeout(ctx, 3*time.Second)
		err := sc.SendRequest(rctx, req, tok, func(v ua.Response) error { resp = v; return nil })
		cancel()
		served := err == nil && resp != nil && !isBad(resp.Header().ServiceResult)
		if rr, isRead := resp.(*ua.ReadResponse); served && isRead && (len(rr.Results) != 1 || rr.Results[0].Status != ua.StatusOK) {
			served = false
		}
		valAfter, _ := c31Val(e.ns.Node(xid))
		s.Probe("op-" + op + "-" + r.Variant)
		if r.Variant == "valid" {
			if !served {
				s.Fail("C35", "control", "activated-session-refused-"+op, "%s through a validly activated session on %s/%d failed: %v %T", op, r.Cfg.Policy, r.Cfg.Mode, err, resp)
				return
			}
			continue
		}
		if served {
			s.Fail("C35", "served-without-session", op+"-activation-refused-"+r.Variant, "op %d: %s with the token of a session whose activation was refused (%s client signature) was served on %s/%d: %T", oi, op, r.Variant, r.Cfg.Policy, r.Cfg.Mode, resp)
			return
		}
		if valAfter != valBefore || subs() != subsBefore {
			s.Fail("C35", "effect-without-session", op+"-activation-refused-"+r.Variant, "op %d: %s with the token of a session whose activation was refused changed the server (value %d -> %d, subscriptions %d -> %d)", oi, op, valBefore, valAfter, subsBefore, subs())
			return
		}
	}
	_ = fmt.Sprint
	s.Teardown()
}

func (r *c35sRun) Finish(s *sim.Sim) {}

func init() {
	Register(&Scenario{Name: "c35s", Props: []string{"C35"}, Horizon: 5 * time.Minute, MaxSteps: 400000, New: func() Run { return &c35sRun{} }, StuckProperty: "HARNESS"})
}
