//go:build verif

package scen

import (
	"context"
	"fmt"
	"sync"
	"time"

	"github.com/gopcua/opcua"
	"github.com/gopcua/opcua/ua"

	"verif/sim"
)

// C36 (race mode work load): a short, dense server-side schedule.
//
// One or two shared nodes; client A keeps a subscription with several monitored
// items on them; clients B.. create subscriptions with items on the same nodes and
// then vanish (reset) or delete them, so that the server tears monitored items down
// (life-time expiry, DeleteSubscriptions, DeleteMonitoredItems) while a writer
// changes the nodes every few milliseconds and thereby drives the notification
// fan-out; reads, browses and further subscribes run alongside. In the scheduled
// mode the scenario only checks that everything returns; its purpose is to put the
// server's shared state under the race detector in the free-running mode.

type c36dRun struct {
	Nodes    int   `json:"nodes"`
	Abusers  int   `json:"abusers"`
	Items    int   `json:"items"`
	Lifetime []int `json:"lifetime_counts"`
	WriteMs  int   `json:"write_every_ms"`
	RunMs    int   `json:"run_ms"`
	LateDial int   `json:"late_dialers"`
	LateNs   int   `json:"late_stop_after_ns"`
}

func (r *c36dRun) Sample() any { return r }

func (r *c36dRun) Setup(s *sim.Sim) {
	p := s.Plan
	s.DrawPolicy()
	r.Nodes = 1 + p.Intn(2)
	r.Abusers = 1 + p.Intn(3)
	r.Items = 2 + p.Intn(3)
	for i := 0; i < r.Abusers; i++ {
		r.Lifetime = append(r.Lifetime, sim.Pick(p, 3, 3, 5, 10))
	}
	r.WriteMs = sim.Pick(p, 2, 5, 11)
	r.RunMs = sim.Pick(p, 1500, 2500, 4000)
	r.LateDial = p.Intn(4)
	r.LateNs = sim.Pick(p, 0, 5, 20, 50, 100, 200, 400, 800, 1600)
}

func (r *c36dRun) Main(s *sim.Sim) {
	e, err := startServer(s, func(e *env) {
		for i := 0; i < r.Nodes; i++ {
			e.ns.AddNewVariableStringNode(fmt.Sprintf("n%d", i), int32(0))
		}
	})
	if err != nil {
		s.Fail("HARNESS", "setup", "server", "%v", err)
		return
	}
	defer e.stop()
	ctx := context.Background()
	nid := func(i int) *ua.NodeID { return e.nodeID(fmt.Sprintf("n%d", i%r.Nodes)) }
	mk := func() *opcua.Client {
		c, err := newClient(opcua.AutoReconnect(false), opcua.RequestTimeout(3*time.Second))
		if err != nil {
			return nil
		}
		cctx, cancel := context.WithTimeout(ctx, 5*time.Second)
		defer cancel()
		if c.Connect(cctx) != nil {
			return nil
		}
		return c
	}
	subscribe := func(c *opcua.Client, lifetime uint32, items int, off int) *opcua.Subscription {
		ch := make(chan *opcua.PublishNotificationData, 4096)
		go func() {
			for range ch {
			}
		}()
		sub, err := c.Subscribe(ctx, &opcua.SubscriptionParameters{Interval: 50 * time.Millisecond, LifetimeCount: lifetime, MaxKeepAliveCount: 1}, ch)
		if err != nil {
			return nil
		}
		var reqs []*ua.MonitoredItemCreateRequest
		for j := 0; j < items; j++ {
			reqs = append(reqs, opcua.NewMonitoredItemCreateRequestWithDefaults(nid(off+j), ua.AttributeIDValue, uint32(100*off+j)))
		}
		sub.Monitor(ctx, ua.TimestampsToReturnBoth, reqs...)
		return sub
	}
	a := mk()
	w := mk()
	if a == nil || w == nil {
		s.Fail("HARNESS", "setup", "clients", "cannot connect")
		return
	}
	subscribe(a, 1000, r.Items+1, 0)
	stop := make(chan struct{})
	var wg sync.WaitGroup
	wg.Add(1)
	go func() { // the writer drives ChangeNotification on the dispatcher
		defer wg.Done()
		for v := int32(1); ; v++ {
			select {
			case <-stop:
				return
			case <-time.After(time.Duration(r.WriteMs) * time.Millisecond):
			}
			rctx, cancel := context.WithTimeout(ctx, 3*time.Second)
			w.Write(rctx, writeReq(nid(int(v)), v))
			if v%7 == 0 {
				w.Read(rctx, readReq(nid(int(v))))
			}
			cancel()
		}
	}()
	for i := 0; i < r.Abusers; i++ {
		wg.Add(1)
		go func(i int) {
			defer wg.Done()
			for round := 0; ; round++ {
				select {
				case <-stop:
					return
				default:
				}
				b := mk()
				if b == nil {
					return
				}
				conns := s.Net.Conns()
				mine := conns[len(conns)-1]
				s1 := subscribe(b, uint32(r.Lifetime[i]), r.Items, i)
				s2 := subscribe(b, uint32(r.Lifetime[i]), r.Items, i+1)
				time.Sleep(time.Duration(40+20*i) * time.Millisecond)
				switch (round + i) % 3 {
				case 0: // vanish: the subscriptions die of their life-time on the server
					mine.Reset()
					s.Fault("rst")
				case 1:
					if s1 != nil {
						s1.Cancel(ctx)
					}
					mine.Reset()
					s.Fault("rst")
				default:
					if s2 != nil {
						s2.Unmonitor(ctx, 1, 2, 3)
						s2.Cancel(ctx)
					}
					b.Close(ctx)
				}
				time.Sleep(time.Duration(150*r.Lifetime[i]) * time.Millisecond)
			}
		}(i)
	}
	time.Sleep(time.Duration(r.RunMs) * time.Millisecond)
	close(stop)
	done := make(chan struct{})
	go func() { wg.Wait(); close(done) }()
	select {
	case <-done:
	case <-time.After(60 * time.Second):
		s.Fail("C29", "canary", dispatcherSig("dense"), "the dense server work load did not finish within 60 s\n%s", serverStacks())
		return
	}
	s.Nontrivial()
	s.Teardown()
	a.Close(ctx)
	w.Close(ctx)
	if s.Free() {
		// race mode only: connections that arrive while the server shuts
		// down (the deferred stop runs LateNs fake nanoseconds after the
		// dialers start), so that the accept loop and the registration of a
		// new channel run against Server.Close
		for k := 0; k < r.LateDial; k++ {
			go func(k int) {
				time.Sleep(time.Duration(k*r.LateNs/2) * time.Nanosecond)
				c, err := newClient(opcua.AutoReconnect(false), opcua.RequestTimeout(time.Second))
				if err != nil {
					return
				}
				cctx, cancel := context.WithTimeout(ctx, 2*time.Second)
				defer cancel()
				s.Probe("late-dial")
				if c.Connect(cctx) == nil {
					s.Probe("late-dial-connected")
					c.Close(ctx)
				}
			}(k)
		}
		time.Sleep(time.Duration(r.LateNs) * time.Nanosecond)
	}
}

func (r *c36dRun) Finish(s *sim.Sim) {}

func init() {
	Register(&Scenario{Name: "c36d", Props: []string{"C36", "C29"}, Horizon: 5 * time.Minute, MaxSteps: 600000, New: func() Run { return &c36dRun{} }, StuckProperty: "C29"})
}
