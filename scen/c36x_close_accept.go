//go:build verif

package scen

import (
	"context"
	"time"

	"github.com/gopcua/opcua"

	"verif/sim"
)

// C36 (race mode work load): connections that arrive while the server shuts down.
//
// Several cycles of: start a real server, let one client connect and read, start
// 1-3 more dialers and call Server.Close a drawn number of fake nanoseconds later,
// so that the accept loop, the HEL/ACK handshake and the registration of the new
// channel with the channel broker (its map and its WaitGroup) run against Close.
// In every other cycle the first client has gone before the dialers start.
// In the scheduled mode the scenario only checks that everything returns.

type c36xRun struct {
	Cycles  int   `json:"cycles"`
	Dialers []int `json:"dialers"`
	StopNs  []int `json:"stop_after_ns"`
	GapNs   []int `json:"dialer_gap_ns"`
}

func (r *c36xRun) Sample() any { return r }

func (r *c36xRun) Setup(s *sim.Sim) {
	p := s.Plan
	s.DrawPolicy()
	r.Cycles = 2 + p.Intn(3)
	for i := 0; i < r.Cycles; i++ {
		r.Dialers = append(r.Dialers, 1+p.Intn(3))
		// in race mode a yield is a 0-3 ns fake sleep and a whole Connect takes
		// 100-150 fake ns, the HEL/ACK and channel registration the first part
		stop := p.Intn(40)
		if p.Intn(5) == 0 {
			stop = sim.Pick(p, 50, 100, 200, 400, 1600, 5000)
		}
		r.StopNs = append(r.StopNs, stop)
		r.GapNs = append(r.GapNs, p.Intn(12))
	}
}

func (r *c36xRun) Main(s *sim.Sim) {
	ctx := context.Background()
	for cy := 0; cy < r.Cycles; cy++ {
		e, err := startServer(s, func(e *env) { e.ns.AddNewVariableStringNode("x", int32(5)) })
		if err != nil {
			s.Fail("HARNESS", "setup", "server", "cycle %d: %v", cy, err)
			return
		}
		first, err := newClient(opcua.AutoReconnect(false), opcua.RequestTimeout(time.Second))
		if err != nil {
			s.Fail("HARNESS", "setup", "client", "%v", err)
			e.stop()
			return
		}
		cctx, cancel := context.WithTimeout(ctx, 5*time.Second)
		err = first.Connect(cctx)
		cancel()
		if err != nil {
			s.Fail("HARNESS", "setup", "connect", "cycle %d: %v", cy, err)
			e.stop()
			return
		}
		first.Read(ctx, readReq(e.nodeID("x")))
		if cy%2 == 0 {
			// no registered channel is left when the dialers arrive: the
			// broker's WaitGroup counter is zero, the case sync.WaitGroup
			// requires Add to be ordered before Wait
			first.Close(ctx)
			time.Sleep(100 * time.Millisecond)
		}
		done := make(chan struct{}, 8)
		for k := 0; k < r.Dialers[cy]; k++ {
			go func(k int) {
				defer func() { done <- struct{}{} }()
				time.Sleep(time.Duration(k*r.GapNs[cy]) * time.Nanosecond)
				c, err := newClient(opcua.AutoReconnect(false), opcua.RequestTimeout(time.Second))
				if err != nil {
					return
				}
				cctx, cancel := context.WithTimeout(ctx, 2*time.Second)
				defer cancel()
				s.Probe("late-dial")
				if c.Connect(cctx) == nil {
					s.Probe("late-dial-connected")
					c.Close(ctx)
				}
			}(k)
		}
		time.Sleep(time.Duration(r.StopNs[cy]) * time.Nanosecond)
		e.stop()
		s.Probe("server-closed-under-dial")
		for k := 0; k < r.Dialers[cy]; k++ {
			select {
			case <-done:
			case <-time.After(30 * time.Second):
				s.Fail("HARNESS", "stuck", "late-dialer", "a dialer did not return within 30 s of Server.Close")
				return
			}
		}
		first.Close(ctx)
		time.Sleep(time.Second)
	}
	s.Nontrivial()
	s.Teardown()
}

func (r *c36xRun) Finish(s *sim.Sim) {}

func init() {
	Register(&Scenario{Name: "c36x", Props: []string{"C36"}, Horizon: 10 * time.Minute, MaxSteps: 600000, New: func() Run { return &c36xRun{} }, StuckProperty: "HARNESS"})
}
