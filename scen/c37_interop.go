//go:build verif

package scen

import (
	"context"
	"fmt"
	"time"

	"github.com/gopcua/opcua"
	"github.com/gopcua/opcua/server"
	"github.com/gopcua/opcua/ua"

	"verif/sim"
)

// C37: client and server interoperate under every supported security configuration.
//
// The configuration set is finite and is enumerated completely: run i covers
// configuration i mod N (the driver issues consecutive seeds).

type c37Cfg struct {
	secCfg
	User string `json:"user_token"` // anonymous | username
}

func c37All() []c37Cfg {
	var out []c37Cfg
	for _, c := range allSecCfgs() {
		for _, u := range []string{"anonymous", "username"} {
			out = append(out, c37Cfg{c, u})
		}
	}
	return out
}

type c37Run struct {
	Index   int    `json:"config_index"`
	Total   int    `json:"config_total"`
	Cfg     c37Cfg `json:"cfg"`
	SegMode int    `json:"seg_mode"`
	LatUs   int    `json:"latency_us"`
}

func (r *c37Run) Sample() any { return r }

func (r *c37Run) Setup(s *sim.Sim) {
	loadKeys()
	all := c37All()
	r.Total = len(all)
	r.Index = int(s.Seed % uint64(len(all)))
	r.Cfg = all[r.Index]
	s.DrawPolicy()
	r.SegMode = s.Plan.Intn(3)
	r.LatUs = sim.Pick(s.Plan, 0, 100, 2000)
}

func (r *c37Run) Main(s *sim.Sim) {
	s.Net.DefSegMode = r.SegMode
	s.Net.DefLatency = time.Duration(r.LatUs) * time.Microsecond
	sk, ck := key("server", r.Cfg.ServerBits), key("client", r.Cfg.ClientBits)
	tok := ua.UserTokenTypeAnonymous
	if r.Cfg.User == "username" {
		tok = ua.UserTokenTypeUserName
	}
	opts := []server.Option{server.EnableSecurity(r.Cfg.Policy, r.Cfg.mode()), server.EnableAuthMode(tok), server.Certificate(sk.Cert), server.PrivateKey(sk.Key)}
	e, err := startServer(s, func(e *env) { e.ns.AddNewVariableStringNode("x", int32(5)) }, opts...)
	if err != nil {
		s.Fail("HARNESS", "setup", "server", "%v", err)
		return
	}
	defer e.stop()
	ctx, cancel := context.WithTimeout(context.Background(), 2*time.Minute)
	defer cancel()
	name := fmt.Sprintf("%s/%d keys %d/%d %s", r.Cfg.Policy, r.Cfg.Mode, r.Cfg.ClientBits, r.Cfg.ServerBits, r.Cfg.User)
	fail := func(step string, err error) {
		s.Fail("C37", "interop-failed", step, "configuration %d of %d (%s): %s failed: %v", r.Index, r.Total, name, step, err)
	}
	// 1. discovery: over an unsecured channel when the server enables it, otherwise over the secured one
	var eps []*ua.EndpointDescription
	if r.Cfg.Policy == "None" {
		eps, err = opcua.GetEndpoints(ctx, srvURL)
	} else {
		eps, err = opcua.GetEndpoints(ctx, srvURL, opcua.SecurityPolicy(r.Cfg.uri()), opcua.SecurityMode(r.Cfg.mode()), opcua.Certificate(ck.Cert), opcua.PrivateKey(ck.Key), opcua.RemoteCertificate(sk.Cert))
	}
	if err != nil {
		fail("GetEndpoints", err)
		return
	}
	ep, err := opcua.SelectEndpoint(eps, r.Cfg.uri(), r.Cfg.mode())
	if err != nil {
		fail("SelectEndpoint", fmt.Errorf("%v (server advertised %d endpoints)", err, len(eps)))
		return
	}
	hasTok := false
	for _, t := range ep.UserIdentityTokens {
		if t.TokenType == tok {
			hasTok = true
		}
	}
	if !hasTok {
		// the statement covers advertised token types only (the server does
		// not offer user name tokens on an endpoint without encryption)
		s.Probe("token-type-not-advertised")
		s.Info["config"] = name + " (token type not advertised: nothing to do)"
		return
	}
	copts := []opcua.Option{opcua.SecurityFromEndpoint(ep, tok), opcua.AutoReconnect(false), opcua.RequestTimeout(20 * time.Second)}
	if r.Cfg.Policy != "None" {
		copts = append(copts, opcua.Certificate(ck.Cert), opcua.PrivateKey(ck.Key))
	}
	if tok == ua.UserTokenTypeUserName {
		copts = append(copts, opcua.AuthUsername("user", "secret"))
	} else {
		copts = append(copts, opcua.AuthAnonymous())
	}
	cl, err := opcua.NewClient(ep.EndpointURL, copts...)
	if err != nil {
		fail("NewClient", err)
		return
	}
	if err := cl.Connect(ctx); err != nil {
		fail("Connect", err)
		return
	}
	res, err := cl.Read(ctx, readReq(e.nodeID("x")))
	if err != nil || len(res.Results) != 1 || res.Results[0].Status != ua.StatusOK {
		fail("Read", fmt.Errorf("%v %v", err, res))
		return
	}
	want := int32(1000 + r.Index)
	wres, err := cl.Write(ctx, writeReq(e.nodeID("x"), want))
	if err != nil || len(wres.Results) != 1 || wres.Results[0] != ua.StatusOK {
		fail("Write", fmt.Errorf("%v %v", err, wres))
		return
	}
	res, err = cl.Read(ctx, readReq(e.nodeID("x")))
	if err != nil || len(res.Results) != 1 || res.Results[0].Value == nil || res.Results[0].Value.Value() != want {
		fail("Read-back", fmt.Errorf("%v %v", err, res))
		return
	}
	s.Probe("config-ok")
	s.Nontrivial()
	s.Info["config"] = name
	s.Teardown()
	cl.Close(ctx)
}

func (r *c37Run) Finish(s *sim.Sim) {}

func init() {
	Register(&Scenario{Name: "c37", Props: []string{"C37"}, Horizon: 10 * time.Minute, MaxSteps: 800000, New: func() Run { return &c37Run{} }, StuckProperty: "C37"})
}
