//go:build verif

package scen

import (
	"context"
	"fmt"
	"os"
	"time"

	"github.com/gopcua/opcua"
	"github.com/gopcua/opcua/server"
	"github.com/gopcua/opcua/ua"

	"verif/sim"
)

const (
	srvHost = "srv"
	srvPort = 4840
	srvAddr = "srv:4840"
	srvURL  = "opc.tcp://srv:4840"
)

// env is a real gopcua server inside the bubble plus helpers to make clients.
type env struct {
	s      *sim.Sim
	srv    *server.Server
	ns     *server.NodeNameSpace
	ctx    context.Context
	cancel context.CancelFunc
}

// startServer builds and starts a real server with scheduling points
// disabled during construction (only the calling goroutine may be running).
func startServer(s *sim.Sim, setup func(e *env), opts ...server.Option) (e *env, err error) {
	s.NoSched(func() { e, err = startServerOnRoot(s, setup, opts...) })
	return e, err
}

// startServerOnRoot builds and starts a real server without touching the
// scheduler: for the root goroutine (actions) or inside NoSched.
func startServerOnRoot(s *sim.Sim, setup func(e *env), opts ...server.Option) (*env, error) {
	e := &env{s: s}
	e.ctx, e.cancel = context.WithCancel(context.Background())
	if len(opts) == 0 {
		opts = []server.Option{
			server.EnableSecurity("None", ua.MessageSecurityModeNone),
			server.EnableAuthMode(ua.UserTokenTypeAnonymous),
		}
	}
	opts = append(opts, server.EndPoint(srvHost, srvPort))
	e.srv = server.New(opts...)
	e.ns = server.NewNodeNameSpace(e.srv, "verif")
	if setup != nil {
		setup(e)
	}
	err := e.srv.Start(e.ctx)
	return e, err
}

func (e *env) stop() {
	e.srv.Close()
	e.cancel()
}

func (e *env) nodeID(name string) *ua.NodeID { return ua.NewStringNodeID(e.ns.ID(), name) }

// newClient creates (but does not connect) a client.
func newClient(opts ...opcua.Option) (*opcua.Client, error) {
	base := []opcua.Option{opcua.SecurityMode(ua.MessageSecurityModeNone)}
	return opcua.NewClient(srvURL, append(base, opts...)...)
}

func writeReq(id *ua.NodeID, v any) *ua.WriteRequest {
	return &ua.WriteRequest{NodesToWrite: []*ua.WriteValue{{
		NodeID:      id,
		AttributeID: ua.AttributeIDValue,
		Value:       &ua.DataValue{EncodingMask: ua.DataValueValue, Value: ua.MustVariant(v)},
	}}}
}

func readReq(ids ...*ua.NodeID) *ua.ReadRequest {
	r := &ua.ReadRequest{TimestampsToReturn: ua.TimestampsToReturnNeither}
	for _, id := range ids {
		r.NodesToRead = append(r.NodesToRead, &ua.ReadValueID{NodeID: id, AttributeID: ua.AttributeIDValue, DataEncoding: &ua.QualifiedName{}})
	}
	return r
}

func errStr(err error) string {
	if err == nil {
		return ""
	}
	return err.Error()
}

var _ = fmt.Sprint
var _ = time.Second

// wireLog prints the decoded None-mode traffic of a connection to stderr
// when VERIF_WIRE is set (debugging aid; never part of an oracle).
func wireLog(s *sim.Sim, c *sim.Conn) {
	if os.Getenv("VERIF_WIRE") == "" {
		return
	}
	id := c.ID
	wl := func(dir string) func(fr []byte) {
		return func(fr []byte) {
			if len(fr) >= 24 && string(fr[:4]) == "MSGF" {
				if _, svc, err := ua.DecodeService(fr[24:]); err == nil {
					extra := ""
					switch x := svc.(type) {
					case *ua.ServiceFault:
						extra = x.ResponseHeader.ServiceResult.Error()
					case *ua.CreateSubscriptionResponse:
						extra = fmt.Sprint("id=", x.SubscriptionID)
					case *ua.DeleteSubscriptionsRequest:
						extra = fmt.Sprint(x.SubscriptionIDs)
					case *ua.CreateMonitoredItemsRequest:
						extra = fmt.Sprint("sub=", x.SubscriptionID, " n=", len(x.ItemsToCreate))
					case *ua.PublishResponse:
						extra = fmt.Sprint("h=", x.ResponseHeader.RequestHandle, " sub=", x.SubscriptionID, " seq=", x.NotificationMessage.SequenceNumber, " nd=", len(x.NotificationMessage.NotificationData), " res=", x.Results, " ", x.ResponseHeader.ServiceResult)
					case *ua.PublishRequest:
						var a []string
						for _, k := range x.SubscriptionAcknowledgements {
							a = append(a, fmt.Sprintf("%d/%d", k.SubscriptionID, k.SequenceNumber))
						}
						extra = fmt.Sprint("h=", x.RequestHeader.RequestHandle, " acks=", a, " timeoutHint=", x.RequestHeader.TimeoutHint)
					}
					fmt.Fprintf(os.Stderr, "W %10v c%d %s %T %s\n", s.Now(), id, dir, svc, extra)
					return
				}
			}
			fmt.Fprintf(os.Stderr, "W %10v c%d %s %s (%d bytes)\n", s.Now(), id, dir, string(fr[:4]), len(fr))
		}
	}
	c.C2S.Observers = append(c.C2S.Observers, wl(">"))
	c.S2C.DeliveredObservers = append(c.S2C.DeliveredObservers, wl("<"))
}
