//go:build verif

package scen

import (
	"context"
	"fmt"
	"time"

	"github.com/gopcua/opcua"
	"github.com/gopcua/opcua/server"
	"github.com/gopcua/opcua/ua"

	"verif/sim"
)

const (
	srvHost = "srv"
	srvPort = 4840
	srvAddr = "srv:4840"
	srvURL  = "opc.tcp://srv:4840"
)

// env is a real gopcua server inside the bubble plus helpers to make clients.
type env struct {
	s      *sim.Sim
	srv    *server.Server
	ns     *server.NodeNameSpace
	ctx    context.Context
	cancel context.CancelFunc
}

// startServer builds and starts a real server with scheduling points
// disabled during construction (only the calling goroutine may be running).
func startServer(s *sim.Sim, setup func(e *env), opts ...server.Option) (e *env, err error) {
	s.NoSched(func() { e, err = startServerOnRoot(s, setup, opts...) })
	return e, err
}

// startServerOnRoot builds and starts a real server without touching the
// scheduler: for the root goroutine (actions) or inside NoSched.
func startServerOnRoot(s *sim.Sim, setup func(e *env), opts ...server.Option) (*env, error) {
	e := &env{s: s}
	e.ctx, e.cancel = context.WithCancel(context.Background())
	if len(opts) == 0 {
		opts = []server.Option{
			server.EnableSecurity("None", ua.MessageSecurityModeNone),
			server.EnableAuthMode(ua.UserTokenTypeAnonymous),
		}
	}
	opts = append(opts, server.EndPoint(srvHost, srvPort))
	e.srv = server.New(opts...)
	e.ns = server.NewNodeNameSpace(e.srv, "verif")
	if setup != nil {
		setup(e)
	}
	err := e.srv.Start(e.ctx)
	return e, err
}

func (e *env) stop() {
	e.srv.Close()
	e.cancel()
}

func (e *env) nodeID(name string) *ua.NodeID { return ua.NewStringNodeID(e.ns.ID(), name) }

// newClient creates (but does not connect) a client.
func newClient(opts ...opcua.Option) (*opcua.Client, error) {
	base := []opcua.Option{opcua.SecurityMode(ua.MessageSecurityModeNone)}
	return opcua.NewClient(srvURL, append(base, opts...)...)
}

func writeReq(id *ua.NodeID, v any) *ua.WriteRequest {
	return &ua.WriteRequest{NodesToWrite: []*ua.WriteValue{{
		NodeID:      id,
		AttributeID: ua.AttributeIDValue,
		Value:       &ua.DataValue{EncodingMask: ua.DataValueValue, Value: ua.MustVariant(v)},
	}}}
}

func readReq(ids ...*ua.NodeID) *ua.ReadRequest {
	r := &ua.ReadRequest{TimestampsToReturn: ua.TimestampsToReturnNeither}
	for _, id := range ids {
		r.NodesToRead = append(r.NodesToRead, &ua.ReadValueID{NodeID: id, AttributeID: ua.AttributeIDValue, DataEncoding: &ua.QualifiedName{}})
	}
	return r
}

func errStr(err error) string {
	if err == nil {
		return ""
	}
	return err.Error()
}

var _ = fmt.Sprint
var _ = time.Second
