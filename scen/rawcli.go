//go:build verif

package scen

import (
	"context"
	"crypto/rand"
	"errors"
	"fmt"
	"net"
	"time"

	"github.com/gopcua/opcua/ua"

	"verif/refcodec"
	"verif/sim"
)

// rawClient is a scripted OPC UA client on the reference codec (framing,
// chunking, cryptography); service bodies use the ua codec.
type rawClient struct {
	nc        net.Conn
	Ack       refcodec.Ack
	sec       *secCfg
	pol       *refcodec.Policy
	ChannelID uint32
	TokenID   uint32
	seq       uint32
	tokens    map[uint32]*tokenKeys
	reasm     *refcodec.Reassembler
	MaxBody   int
	nextReq   uint32
}

func dialRawClient(s *sim.Sim, addr string, hello refcodec.Hello, sec *secCfg) (*rawClient, error) {
	nc, err := s.Net.Dial(context.Background(), addr)
	if err != nil {
		return nil, err
	}
	c := &rawClient{nc: nc, sec: sec, tokens: map[uint32]*tokenKeys{}, reasm: refcodec.NewReassembler(), nextReq: 1}
	if sec != nil && sec.Policy != "None" {
		c.pol = refcodec.Policies[sec.Policy]
	}
	if _, err := nc.Write(hello.Frame()); err != nil {
		return nil, err
	}
	nc.SetReadDeadline(time.Now().Add(10 * time.Second))
	fr, err := refcodec.ReadFrame(nc, 1<<16)
	if err != nil {
		return nil, err
	}
	if c.Ack, err = refcodec.ParseAck(fr); err != nil {
		return nil, fmt.Errorf("no ACK: %s", refcodec.FrameType(fr))
	}
	nc.SetReadDeadline(time.Time{})
	return c, nil
}

func (c *rawClient) Close() { c.nc.Close() }

func (c *rawClient) seal(ch *refcodec.Chunk) ([]byte, error) {
	if c.pol == nil {
		ch.PolicyURI = refcodec.PolicyNone
		return ch.EncodePlain(), nil
	}
	ck, sk := key("client", c.sec.ClientBits), key("server", c.sec.ServerBits)
	if ch.Type == "OPN" {
		ch.PolicyURI, ch.Cert, ch.Thumb = c.pol.URI, ck.Cert, thumbprint(sk.Cert)
		return c.pol.SealAsym(ch.EncodePlain(), ck.Key, &sk.Key.PublicKey)
	}
	tk := c.tokens[ch.TokenID]
	if tk == nil {
		return nil, errors.New("no keys for token")
	}
	return c.pol.SealSym(ch.EncodePlain(), tk.client, refcodec.Mode(c.sec.Mode))
}

func (c *rawClient) open(fr []byte) ([]byte, error) {
	if c.pol == nil {
		return fr, nil
	}
	ck, sk := key("client", c.sec.ClientBits), key("server", c.sec.ServerBits)
	if string(fr[:3]) == "OPN" {
		return c.pol.OpenAsym(fr, ck.Key, &sk.Key.PublicKey)
	}
	if len(fr) < 16 {
		return nil, errors.New("short secured chunk")
	}
	tk := c.tokens[le32(fr[12:])]
	if tk == nil {
		return nil, fmt.Errorf("chunk for unknown token %d", le32(fr[12:]))
	}
	return c.pol.OpenSym(fr, tk.server, refcodec.Mode(c.sec.Mode))
}

// SendBody sends an encoded service body as one or more chunks.
func (c *rawClient) SendBody(typ string, reqID uint32, body []byte) error {
	var cuts []int
	if c.MaxBody > 0 {
		for off := c.MaxBody; off < len(body); off += c.MaxBody {
			cuts = append(cuts, off)
		}
	}
	parts := refcodec.SplitBody(body, cuts)
	var out []byte
	for i, p := range parts {
		c.seq++
		ch := &refcodec.Chunk{Type: typ, ChunkType: 'C', ChannelID: c.ChannelID, TokenID: c.TokenID, Seq: c.seq, RequestID: reqID, Body: p}
		if i == len(parts)-1 {
			ch.ChunkType = 'F'
		}
		fr, err := c.seal(ch)
		if err != nil {
			return err
		}
		out = append(out, fr...)
	}
	_, err := c.nc.Write(out)
	return err
}

// Recv reads chunks until a message is complete.
func (c *rawClient) Recv(timeout time.Duration) (uint32, any, error) {
	for {
		c.nc.SetReadDeadline(time.Now().Add(timeout))
		fr, err := refcodec.ReadFrame(c.nc, 1<<24)
		if err != nil {
			return 0, nil, err
		}
		if refcodec.FrameType(fr) == "ERRF" {
			return 0, nil, fmt.Errorf("ERR frame from peer: code %#x", le32(fr[8:]))
		}
		plain, err := c.open(fr)
		if err != nil {
			return 0, nil, fmt.Errorf("chunk from gopcua does not open: %w", err)
		}
		ch, err := refcodec.ParsePlainChunk(plain)
		if err != nil {
			return 0, nil, err
		}
		body, done, aborted := c.reasm.Add(ch)
		if !done {
			continue
		}
		if aborted {
			return ch.RequestID, nil, errors.New("aborted")
		}
		_, svc, err := ua.DecodeService(body)
		if err != nil {
			return ch.RequestID, nil, fmt.Errorf("body does not decode: %w", err)
		}
		return ch.RequestID, svc, nil
	}
}

// Open performs the OpenSecureChannel exchange.
func (c *rawClient) Open(lifetimeMs uint32, renew bool) error {
	nonce := []byte{}
	if c.pol != nil {
		nonce = make([]byte, c.pol.NonceLen)
		rand.Read(nonce)
	}
	mode := ua.MessageSecurityModeNone
	if c.sec != nil {
		mode = c.sec.mode()
	}
	rt := ua.SecurityTokenRequestTypeIssue
	if renew {
		rt = ua.SecurityTokenRequestTypeRenew
	}
	req := &ua.OpenSecureChannelRequest{RequestHeader: &ua.RequestHeader{AuthenticationToken: ua.NewTwoByteNodeID(0), Timestamp: time.Now(), AdditionalHeader: ua.NewExtensionObject(nil)},
		RequestType: rt, SecurityMode: mode, ClientNonce: nonce, RequestedLifetime: lifetimeMs}
	body, err := encodeService(req)
	if err != nil {
		return err
	}
	id := c.nextReq
	c.nextReq++
	if err := c.SendBody("OPN", id, body); err != nil {
		return err
	}
	_, svc, err := c.Recv(20 * time.Second)
	if err != nil {
		return err
	}
	resp, ok := svc.(*ua.OpenSecureChannelResponse)
	if !ok {
		return fmt.Errorf("got %T instead of an OpenSecureChannelResponse", svc)
	}
	if resp.ResponseHeader.ServiceResult != ua.StatusOK {
		return resp.ResponseHeader.ServiceResult
	}
	c.ChannelID, c.TokenID = resp.SecurityToken.ChannelID, resp.SecurityToken.TokenID
	if c.pol != nil {
		tk := &tokenKeys{channelID: c.ChannelID, tokenID: c.TokenID}
		tk.client, tk.server = c.pol.DeriveKeys(nonce, resp.ServerNonce)
		c.tokens[c.TokenID] = tk
	}
	return nil
}

// Request sends a request and returns the next complete message.
func (c *rawClient) Request(req ua.Request, timeout time.Duration) (any, error) {
	id := c.nextReq
	c.nextReq++
	req.SetHeader(&ua.RequestHeader{AuthenticationToken: ua.NewTwoByteNodeID(0), Timestamp: time.Now(), RequestHandle: id, AdditionalHeader: ua.NewExtensionObject(nil)})
	body, err := encodeService(req)
	if err != nil {
		return nil, err
	}
	if err := c.SendBody("MSG", id, body); err != nil {
		return nil, err
	}
	rid, svc, err := c.Recv(timeout)
	if err != nil {
		return nil, err
	}
	if rid != id {
		return svc, fmt.Errorf("response for request id %d, expected %d", rid, id)
	}
	return svc, nil
}
