//go:build verif

package scen

import (
	"crypto/rand"
	"errors"
	"net"
	"sync"
	"time"

	"github.com/gopcua/opcua/id"
	"github.com/gopcua/opcua/ua"

	"verif/refcodec"
	"verif/sim"
)

// rawServer is a scripted OPC UA server for security mode None built on the
// reference codec (framing, chunking, sequence numbers) - nothing of
// uacp/uasc is involved. Service bodies are encoded and decoded with the ua
// codec, which is not what the properties using this server are about.
type rawServer struct {
	s *sim.Sim
	l interface {
		Accept() (net.Conn, error)
		Close() error
	}
	Ack  refcodec.Ack
	Hel  []refcodec.Hello // every Hello received
	mu   sync.Mutex
	conn []*rawSrvConn

	// OnRequest is called on the connection's goroutine for every complete
	// request other than OpenSecureChannel. It answers through c.Respond.
	OnRequest func(c *rawSrvConn, reqID uint32, req ua.Request)
	// RevisedLifetime in ms; 0 echoes the requested lifetime.
	RevisedLifetime uint32
	// FreshTokenOnRenew makes renewals issue a new token id.
	FreshTokenOnRenew bool
	// OnOpen, if set, is called for OPN requests; returning false suppresses the default answer.
	OnOpen      func(c *rawSrvConn, reqID uint32, req *ua.OpenSecureChannelRequest) bool
	nextChannel uint32
	// Sec, if set to a secured configuration, makes the server speak that
	// policy and mode with the reference implementation of the cryptography.
	Sec *secCfg
	// OnProtocolError is called when a received chunk does not open or parse.
	OnProtocolError func(c *rawSrvConn, err error)
}

type rawSrvConn struct {
	srv       *rawServer
	nc        net.Conn
	ChannelID uint32
	TokenID   uint32
	mu        sync.Mutex
	seq       uint32
	MaxBody   int // body bytes per chunk when sending (0: single chunk)
	reasm     *refcodec.Reassembler
	Hello     refcodec.Hello
	closed    bool
	// secured mode state
	pol         *refcodec.Policy
	clientNonce []byte
	tokens      map[uint32]*tokenKeys // token id -> keys
}

func newRawServer(s *sim.Sim, addr string) (*rawServer, error) {
	l, err := s.Net.Listen(addr)
	if err != nil {
		return nil, err
	}
	srv := &rawServer{s: s, l: l, Ack: refcodec.Ack{RecvBuf: 65535, SendBuf: 65535, MaxMsg: 0, MaxChunks: 0}, nextChannel: 100}
	go srv.acceptLoop()
	return srv, nil
}

func (srv *rawServer) Close() { srv.l.Close() }

func (srv *rawServer) Conns() []*rawSrvConn {
	srv.mu.Lock()
	defer srv.mu.Unlock()
	return append([]*rawSrvConn(nil), srv.conn...)
}

func (srv *rawServer) acceptLoop() {
	for {
		nc, err := srv.l.Accept()
		if err != nil {
			return
		}
		srv.mu.Lock()
		srv.nextChannel++
		c := &rawSrvConn{srv: srv, nc: nc, ChannelID: srv.nextChannel, TokenID: 1, seq: 50, reasm: refcodec.NewReassembler()}
		srv.conn = append(srv.conn, c)
		srv.mu.Unlock()
		go c.serve()
	}
}

func (c *rawSrvConn) serve() {
	defer c.nc.Close()
	fr, err := refcodec.ReadFrame(c.nc, 1<<20)
	if err != nil {
		return
	}
	h, err := refcodec.ParseHello(fr)
	if err != nil {
		return
	}
	c.Hello = h
	c.srv.mu.Lock()
	c.srv.Hel = append(c.srv.Hel, h)
	ack := c.srv.Ack
	c.srv.mu.Unlock()
	if _, err := c.nc.Write(ack.Frame()); err != nil {
		return
	}
	for {
		fr, err := refcodec.ReadFrame(c.nc, 1<<24)
		if err != nil {
			return
		}
		plain, err := c.open(fr)
		if err != nil {
			if c.srv.OnProtocolError != nil {
				c.srv.OnProtocolError(c, err)
			}
			return
		}
		ch, err := refcodec.ParsePlainChunk(plain)
		if err != nil {
			if c.srv.OnProtocolError != nil {
				c.srv.OnProtocolError(c, err)
			}
			return
		}
		switch ch.Type {
		case "CLO":
			return
		case "OPN":
			_, svc, err := ua.DecodeService(ch.Body)
			if err != nil {
				return
			}
			req, ok := svc.(*ua.OpenSecureChannelRequest)
			if !ok {
				return
			}
			c.clientNonce = req.ClientNonce
			if c.srv.OnOpen != nil && !c.srv.OnOpen(c, ch.RequestID, req) {
				continue
			}
			c.AnswerOpen(ch.RequestID, req)
		case "MSG":
			body, done, aborted := c.reasm.Add(ch)
			if !done || aborted {
				continue
			}
			_, svc, err := ua.DecodeService(body)
			if err != nil {
				continue
			}
			req, ok := svc.(ua.Request)
			if !ok {
				continue
			}
			if c.srv.OnRequest != nil {
				c.srv.OnRequest(c, ch.RequestID, req)
			}
		}
	}
}

// AnswerOpen sends the default OpenSecureChannel response.
func (c *rawSrvConn) AnswerOpen(reqID uint32, req *ua.OpenSecureChannelRequest) {
	life := req.RequestedLifetime
	if c.srv.RevisedLifetime != 0 {
		life = c.srv.RevisedLifetime
	}
	if req.RequestType == ua.SecurityTokenRequestTypeRenew && c.srv.FreshTokenOnRenew {
		c.TokenID++
	}
	nonce := []byte{}
	if c.pol != nil {
		nonce = make([]byte, c.pol.NonceLen)
		rand.Read(nonce)
	}
	resp := &ua.OpenSecureChannelResponse{
		ResponseHeader: rawRespHeader(req.RequestHeader.RequestHandle, ua.StatusOK),
		SecurityToken:  &ua.ChannelSecurityToken{ChannelID: c.ChannelID, TokenID: c.TokenID, CreatedAt: time.Now(), RevisedLifetime: life},
		ServerNonce:    nonce,
	}
	c.respondAs("OPN", reqID, resp)
	if c.pol != nil {
		tk := &tokenKeys{channelID: c.ChannelID, tokenID: c.TokenID}
		tk.client, tk.server = c.pol.DeriveKeys(req.ClientNonce, nonce)
		c.mu.Lock()
		if c.tokens == nil {
			c.tokens = map[uint32]*tokenKeys{}
		}
		c.tokens[c.TokenID] = tk
		c.mu.Unlock()
	}
}

func rawRespHeader(handle uint32, code ua.StatusCode) *ua.ResponseHeader {
	return &ua.ResponseHeader{Timestamp: time.Now(), RequestHandle: handle, ServiceResult: code, ServiceDiagnostics: &ua.DiagnosticInfo{}, StringTable: []string{}, AdditionalHeader: ua.NewExtensionObject(nil)}
}

// EncodeService encodes a service body (type id + struct) with the ua codec.
func encodeService(svc any) ([]byte, error) {
	typeID := ua.ServiceTypeID(svc)
	if typeID == 0 {
		return nil, errors.New("unknown service type")
	}
	a, err := ua.Encode(ua.NewFourByteExpandedNodeID(0, typeID))
	if err != nil {
		return nil, err
	}
	b, err := ua.Encode(svc)
	if err != nil {
		return nil, err
	}
	return append(a, b...), nil
}

// Respond sends resp for reqID as one or more MSG chunks.
func (c *rawSrvConn) Respond(reqID uint32, resp ua.Response) error {
	return c.respondAs("MSG", reqID, resp)
}

func (c *rawSrvConn) respondAs(typ string, reqID uint32, resp any) error {
	body, err := encodeService(resp)
	if err != nil {
		return err
	}
	return c.SendBody(typ, reqID, body, nil)
}

// SendBody sends an encoded body split at cuts (nil: by MaxBody).
func (c *rawSrvConn) SendBody(typ string, reqID uint32, body []byte, cuts []int) error {
	c.mu.Lock()
	defer c.mu.Unlock()
	if cuts == nil && c.MaxBody > 0 {
		for off := c.MaxBody; off < len(body); off += c.MaxBody {
			cuts = append(cuts, off)
		}
	}
	parts := refcodec.SplitBody(body, cuts)
	var out []byte
	for i, p := range parts {
		c.seq++
		ch := &refcodec.Chunk{Type: typ, ChunkType: 'C', ChannelID: c.ChannelID, TokenID: c.TokenID, PolicyURI: refcodec.PolicyNone, Seq: c.seq, RequestID: reqID, Body: p}
		if i == len(parts)-1 {
			ch.ChunkType = 'F'
		}
		fr, err := c.seal(ch)
		if err != nil {
			return err
		}
		out = append(out, fr...)
	}
	_, err := c.nc.Write(out)
	return err
}

// open turns a received frame into the plain layout.
func (c *rawSrvConn) open(fr []byte) ([]byte, error) {
	sec := c.srv.Sec
	if sec == nil || sec.Policy == "None" {
		return fr, nil
	}
	if c.pol == nil {
		c.pol = refcodec.Policies[sec.Policy]
	}
	ck, sk := key("client", sec.ClientBits), key("server", sec.ServerBits)
	if string(fr[:3]) == "OPN" {
		return c.pol.OpenAsym(fr, sk.Key, &ck.Key.PublicKey)
	}
	if len(fr) < 16 {
		return nil, errors.New("short secured chunk")
	}
	c.mu.Lock()
	tk := c.tokens[le32(fr[12:])]
	c.mu.Unlock()
	if tk == nil {
		return nil, errors.New("chunk for unknown token")
	}
	return c.pol.OpenSym(fr, tk.client, refcodec.Mode(sec.Mode))
}

// seal protects an outgoing chunk. The caller holds c.mu.
func (c *rawSrvConn) seal(ch *refcodec.Chunk) ([]byte, error) {
	sec := c.srv.Sec
	if sec == nil || sec.Policy == "None" {
		return ch.EncodePlain(), nil
	}
	ck, sk := key("client", sec.ClientBits), key("server", sec.ServerBits)
	if ch.Type == "OPN" {
		ch.PolicyURI = c.pol.URI
		ch.Cert = sk.Cert
		ch.Thumb = thumbprint(ck.Cert)
		return c.pol.SealAsym(ch.EncodePlain(), sk.Key, &ck.Key.PublicKey)
	}
	tk := c.tokens[ch.TokenID]
	if tk == nil {
		return nil, errors.New("no keys for token")
	}
	return c.pol.SealSym(ch.EncodePlain(), tk.server, refcodec.Mode(sec.Mode))
}

// NextSeq reserves and returns the next outgoing sequence number.
func (c *rawSrvConn) NextSeq() uint32 {
	c.mu.Lock()
	defer c.mu.Unlock()
	c.seq++
	return c.seq
}

// SetSeq sets the last used outgoing sequence number.
func (c *rawSrvConn) SetSeq(n uint32) { c.mu.Lock(); c.seq = n; c.mu.Unlock() }

// WriteRaw writes raw bytes to the connection.
func (c *rawSrvConn) WriteRaw(b []byte) error { _, err := c.nc.Write(b); return err }

// sessionHandler answers session establishment and the namespace array read
// so that a real opcua.Client can Connect; everything else goes to next.
func sessionHandler(next func(c *rawSrvConn, reqID uint32, req ua.Request)) func(c *rawSrvConn, reqID uint32, req ua.Request) {
	return func(c *rawSrvConn, reqID uint32, req ua.Request) {
		h := req.Header().RequestHandle
		switch r := req.(type) {
		case *ua.CreateSessionRequest:
			c.Respond(reqID, &ua.CreateSessionResponse{
				ResponseHeader: rawRespHeader(h, ua.StatusOK), SessionID: ua.NewNumericNodeID(1, 77), AuthenticationToken: ua.NewNumericNodeID(0, 4711),
				RevisedSessionTimeout: 60000, ServerNonce: make([]byte, 32), ServerSignature: &ua.SignatureData{},
				ServerEndpoints: []*ua.EndpointDescription{{EndpointURL: srvURL, SecurityMode: ua.MessageSecurityModeNone, SecurityPolicyURI: refcodec.PolicyNone,
					Server:             &ua.ApplicationDescription{ApplicationName: &ua.LocalizedText{}},
					UserIdentityTokens: []*ua.UserTokenPolicy{{PolicyID: "anon", TokenType: ua.UserTokenTypeAnonymous}}}},
			})
		case *ua.ActivateSessionRequest:
			c.Respond(reqID, &ua.ActivateSessionResponse{ResponseHeader: rawRespHeader(h, ua.StatusOK), ServerNonce: make([]byte, 32)})
		case *ua.CloseSessionRequest:
			c.Respond(reqID, &ua.CloseSessionResponse{ResponseHeader: rawRespHeader(h, ua.StatusOK)})
		case *ua.ReadRequest:
			if len(r.NodesToRead) == 1 && r.NodesToRead[0].NodeID.Namespace() == 0 && r.NodesToRead[0].NodeID.IntID() == id.Server_NamespaceArray {
				c.Respond(reqID, &ua.ReadResponse{ResponseHeader: rawRespHeader(h, ua.StatusOK), Results: []*ua.DataValue{{EncodingMask: ua.DataValueValue, Value: ua.MustVariant([]string{"http://opcfoundation.org/UA/", "urn:x"})}}})
				return
			}
			next(c, reqID, req)
		default:
			next(c, reqID, req)
		}
	}
}
