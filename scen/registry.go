//go:build verif

// Package scen holds the simulation scenarios (one or more per property) and
// the worker entry point that executes seeds.
package scen

import (
	"fmt"
	"io"
	"log"
	mrand "math/rand"
	"os"
	"runtime"
	"runtime/debug"
	"sort"
	"strings"
	"testing"
	"testing/cryptotest"
	"testing/synctest"
	"time"

	"github.com/gopcua/opcua/uacp"

	"verif/sim"
)

// Run is the per-run state of a scenario.
type Run interface {
	// Setup is called outside the bubble: draw the plan, load keys.
	Setup(s *sim.Sim)
	// Main is the application goroutine, inside the bubble, under the scheduler.
	Main(s *sim.Sim)
	// Finish runs on the root goroutine inside the bubble after the scheduler
	// stopped: post conditions.
	Finish(s *sim.Sim)
	// Sample describes the generated case for the evidence file.
	Sample() any
}

type Scenario struct {
	Name     string
	Props    []string
	Horizon  time.Duration
	MaxSteps int
	New      func() Run
	// StuckProperty: if set, a run whose Main has not returned when the
	// horizon is reached is a violation of this property ("stuck").
	StuckProperty string
}

var registry = map[string]*Scenario{}

func Register(sc *Scenario) {
	if _, dup := registry[sc.Name]; dup {
		panic("duplicate scenario " + sc.Name)
	}
	registry[sc.Name] = sc
}

func Lookup(name string) *Scenario { return registry[name] }

func Names() []string {
	var out []string
	for n := range registry {
		out = append(out, n)
	}
	sort.Strings(out)
	return out
}

// Result of one run.
type Result struct {
	Scenario   string          `json:"scenario"`
	Seed       uint64          `json:"seed"`
	Violations []sim.Violation `json:"violations,omitempty"`
	Steps      int             `json:"steps"`
	SimNanos   int64           `json:"sim_ns"`
	WallMicros int64           `json:"wall_us"`
	TraceHash  string          `json:"trace"`
	Nontrivial bool            `json:"nontrivial"`
	Probes     map[string]int  `json:"probes,omitempty"`
	Faults     map[string]int  `json:"faults,omitempty"`
	Sample     any             `json:"sample,omitempty"`
	PlanTape   []uint32        `json:"plan_tape,omitempty"`
	SchedTape  []uint32        `json:"sched_tape,omitempty"`
	TimedOut   bool            `json:"timed_out,omitempty"`
	StepsOut   bool            `json:"steps_out,omitempty"`
	Leaked     string          `json:"leaked,omitempty"`
	Info       map[string]any  `json:"info,omitempty"`
}

// Execute runs one simulated execution of sc.
func Execute(t *testing.T, sc *Scenario, seed uint64, plan, sched *sim.Tape, wantSample bool) (res Result) {
	t0 := time.Now()
	res.Scenario, res.Seed = sc.Name, seed
	log.SetOutput(io.Discard)
	t.Run(fmt.Sprintf("s%d", seed), func(t *testing.T) {
		cryptotest.SetGlobalRandom(t, seed)
		mrand.Seed(int64(seed))
		s := sim.New(seed, plan, sched)
		if sc.Horizon > 0 {
			s.Horizon = sc.Horizon
		}
		if sc.MaxSteps > 0 {
			s.MaxSteps = sc.MaxSteps
		}
		// package-level mutable defaults are snapshotted and restored around
		// every run (C23 checks that gopcua itself does not modify them)
		cack, sack := *uacp.DefaultClientACK, *uacp.DefaultServerACK
		defer func() { *uacp.DefaultClientACK, *uacp.DefaultServerACK = cack, sack }()
		r := sc.New()
		r.Setup(s)
		gcOff := debug.SetGCPercent(-1)
		func() {
			defer func() {
				if p := recover(); p != nil {
					msg := fmt.Sprint(p)
					if strings.Contains(msg, "deadlock") {
						res.Leaked = msg
						return
					}
					panic(p)
				}
			}()
			synctest.Test(t, func(t *testing.T) {
				s.Net.Install()
				defer s.Net.Uninstall()
				if os.Getenv("VERIF_RACE") != "" {
					s.RunFree(func() { r.Main(s) })
				} else {
					s.Run(func() { r.Main(s) })
				}
				if !s.Finished() && !s.Failed() && sc.StuckProperty != "" {
					s.Fail(sc.StuckProperty, "stuck", stuckSig(s), "application did not finish: timedOut=%v stepsOut=%v steps=%d\n%s",
						s.TimedOut, s.StepsOut, s.Steps(), stuckDump(s))
				}
				r.Finish(s)
			})
		}()
		debug.SetGCPercent(gcOff)
		if pb, ok := r.(interface{ Post(s *sim.Sim) }); ok && !s.Failed() {
			s.AdoptRoot() // Fail from other goroutines is ignored once the scheduler has stopped
			pb.Post(s)
		}
		res.Violations = s.Violations()
		res.Steps = s.Steps()
		res.SimNanos = int64(s.End)
		res.TraceHash = fmt.Sprintf("%016x", s.TraceHash())
		res.Nontrivial = s.IsNontrivial()
		res.Probes = s.Probes
		res.Faults = s.Faults
		res.TimedOut, res.StepsOut = s.TimedOut, s.StepsOut
		if wantSample || len(res.Violations) > 0 {
			res.Sample = r.Sample()
			res.Info = s.Info
		}
		if len(res.Violations) > 0 {
			res.PlanTape = plan.Out
			res.SchedTape = sched.Out
		}
	})
	// two collections: the second one also empties the victim caches of any
	// sync.Pool in the code under test, so that no pooled object (e.g. a
	// channel created inside this run's bubble) survives into the next run
	runtime.GC()
	runtime.GC()
	res.WallMicros = time.Since(t0).Microseconds()
	return res
}

// stuckSig derives a stable signature for a stuck run from the blocked
// application-visible frames.
func stuckSig(s *sim.Sim) string {
	if s.StepsOut {
		return "steps-exhausted"
	}
	return "horizon"
}

func stuckDump(s *sim.Sim) string {
	d := s.StuckDump
	if len(d) > 20000 {
		d = d[:20000]
	}
	return d
}
