//go:build verif

package scen

import (
	"crypto/rsa"
	"crypto/x509"
	"encoding/pem"
	"fmt"
	"os"
	"path/filepath"
	"sync"
	"time"

	"github.com/gopcua/opcua/ua"

	"verif/refcodec"
	"verif/sim"
)

// ---- keys ----

type keyPair struct {
	Bits int
	Key  *rsa.PrivateKey
	Cert []byte // DER
}

var (
	keysOnce sync.Once
	keys     = map[string]*keyPair{} // "client_2048"
)

func testdataDir() string {
	if d := os.Getenv("VERIF_TESTDATA"); d != "" {
		return d
	}
	dir, _ := os.Getwd()
	for i := 0; i < 6; i++ {
		if _, err := os.Stat(filepath.Join(dir, "testdata", "client_2048.key.pem")); err == nil {
			return filepath.Join(dir, "testdata")
		}
		dir = filepath.Dir(dir)
	}
	return "/verif/testdata"
}

func loadKeys() {
	keysOnce.Do(func() {
		dir := testdataDir()
		for _, role := range []string{"client", "server"} {
			for _, bits := range []int{1024, 2048, 3072, 4096} {
				name := fmt.Sprintf("%s_%d", role, bits)
				pemb, err := os.ReadFile(filepath.Join(dir, name+".key.pem"))
				if err != nil {
					panic("verif: cannot read test key: " + err.Error())
				}
				blk, _ := pem.Decode(pemb)
				k, err := x509.ParsePKCS1PrivateKey(blk.Bytes)
				if err != nil {
					panic(err)
				}
				der, err := os.ReadFile(filepath.Join(dir, name+".cert.der"))
				if err != nil {
					panic(err)
				}
				keys[name] = &keyPair{Bits: bits, Key: k, Cert: der}
			}
		}
	})
}

func key(role string, bits int) *keyPair {
	loadKeys()
	return keys[fmt.Sprintf("%s_%d", role, bits)]
}

// secCfg is one security configuration.
type secCfg struct {
	Policy     string `json:"policy"` // short name, "None"
	Mode       int    `json:"mode"`   // 1 none, 2 sign, 3 sign+encrypt
	ClientBits int    `json:"client_key_bits"`
	ServerBits int    `json:"server_key_bits"`
}

func (c secCfg) uri() string {
	if c.Policy == "None" {
		return refcodec.PolicyNone
	}
	return "http://opcfoundation.org/UA/SecurityPolicy#" + c.Policy
}

func (c secCfg) mode() ua.MessageSecurityMode { return ua.MessageSecurityMode(c.Mode) }

// allSecCfgs enumerates every supported policy x mode x allowed key size pair.
func allSecCfgs() []secCfg {
	out := []secCfg{{Policy: "None", Mode: 1, ClientBits: 2048, ServerBits: 2048}}
	for _, name := range []string{"Basic128Rsa15", "Basic256", "Basic256Sha256", "Aes128_Sha256_RsaOaep", "Aes256_Sha256_RsaPss"} {
		p := refcodec.Policies[name]
		for _, mode := range []int{2, 3} {
			for _, cb := range []int{1024, 2048, 3072, 4096} {
				for _, sb := range []int{1024, 2048, 3072, 4096} {
					if cb < p.MinKeyBits || cb > p.MaxKeyBits || sb < p.MinKeyBits || sb > p.MaxKeyBits {
						continue
					}
					out = append(out, secCfg{Policy: name, Mode: mode, ClientBits: cb, ServerBits: sb})
				}
			}
		}
	}
	return out
}

func drawSecCfg(p *sim.Tape, secured bool) secCfg {
	all := allSecCfgs()
	if secured {
		all = all[1:]
	}
	// 4096 bit handshakes are slow: take them less often
	for {
		c := all[p.Intn(len(all))]
		if (c.ClientBits == 4096 || c.ServerBits == 4096) && p.Intn(3) != 0 {
			continue
		}
		return c
	}
}

// ---- wire oracle for secured channels ----

type tokenKeys struct {
	channelID, tokenID uint32
	client, server     refcodec.SymKeys
	createdAt          time.Duration // sim time of the OPN response
	lifetime           time.Duration
}

// secOracle follows one connection: it opens every chunk with independently
// derived keys (the harness generated both key pairs, so it can decrypt the
// OPN exchange like either peer).
type secOracle struct {
	s    *sim.Sim
	cfg  secCfg
	prop string // property to blame when a chunk does not open
	// SizeProp, if set, is blamed for chunks larger than the receiver advertised.
	SizeProp string
	pol      *refcodec.Policy
	ck, sk   *keyPair
	mu       sync.Mutex
	nonceC   map[uint32][]byte // request id -> client nonce of the pending OPN
	tokens   []*tokenKeys
	Chunks   int
	failed   bool
	// OnPlain is called with every successfully opened chunk.
	OnPlain func(dir string, ch *refcodec.Chunk)
	// MaxC2S / MaxS2C: largest chunk each direction may carry (0: unchecked)
	MaxC2S, MaxS2C int
}

func newSecOracle(s *sim.Sim, cfg secCfg, prop string) *secOracle {
	o := &secOracle{s: s, cfg: cfg, prop: prop, nonceC: map[uint32][]byte{}}
	if cfg.Policy != "None" {
		o.pol = refcodec.Policies[cfg.Policy]
		o.ck, o.sk = key("client", cfg.ClientBits), key("server", cfg.ServerBits)
	}
	return o
}

func (o *secOracle) attach(c *sim.Conn) {
	c.C2S.Observers = append(c.C2S.Observers, func(fr []byte) { o.frame("c2s", fr) })
	c.S2C.Observers = append(c.S2C.Observers, func(fr []byte) { o.frame("s2c", fr) })
}

func (o *secOracle) fail(kind, sig, format string, args ...any) {
	if o.failed {
		return
	}
	o.failed = true
	o.s.Fail(o.prop, kind, sig, format, args...)
}

// blame changes the property later failures of this oracle are attributed to.
func (o *secOracle) blame(prop string) {
	o.mu.Lock()
	o.prop = prop
	o.mu.Unlock()
}

func (o *secOracle) token(channelID, tokenID uint32) *tokenKeys {
	for i := len(o.tokens) - 1; i >= 0; i-- {
		if o.tokens[i].tokenID == tokenID && (o.tokens[i].channelID == channelID || channelID == 0) {
			return o.tokens[i]
		}
	}
	return nil
}

// frame is called with every frame written in either direction.
func (o *secOracle) frame(dir string, fr []byte) {
	o.mu.Lock()
	defer o.mu.Unlock()
	if o.failed || len(fr) < 8 {
		return
	}
	typ := string(fr[:3])
	if typ != "MSG" && typ != "OPN" && typ != "CLO" {
		return
	}
	o.Chunks++
	if max := map[string]int{"c2s": o.MaxC2S, "s2c": o.MaxS2C}[dir]; max > 0 && len(fr) > max {
		if o.SizeProp != "" {
			o.prop = o.SizeProp
		}
		// a chunk larger than the receiver's buffer breaks C06 (negotiated
		// limits) whatever else the scenario is about
		if o.prop != "C06" && !o.failed {
			o.s.Fail("C06", "oversized-chunk", dir+"-symmetric-buffers", "%s %s chunk of %d bytes exceeds the %d bytes the receiver advertised (policy %s mode %d; both sides announced the same buffer sizes)", dir, typ, len(fr), max, o.cfg.Policy, o.cfg.Mode)
		}
		o.fail("oversized-chunk", dir, "%s chunk of %d bytes exceeds the %d bytes the receiver advertised", dir, len(fr), max)
		return
	}
	var plain []byte
	var err error
	switch {
	case o.pol == nil:
		plain = fr
	case typ == "OPN":
		if dir == "c2s" {
			plain, err = o.pol.OpenAsym(fr, o.sk.Key, &o.ck.Key.PublicKey)
		} else {
			plain, err = o.pol.OpenAsym(fr, o.ck.Key, &o.sk.Key.PublicKey)
		}
	default:
		if len(fr) < 16 {
			o.fail("malformed-chunk", dir, "secured chunk of %d bytes", len(fr))
			return
		}
		chID, tokID := le32(fr[8:]), le32(fr[12:])
		tk := o.token(chID, tokID)
		if tk == nil {
			o.fail("unknown-token", dir, "%s %s chunk refers to channel %d token %d which was never issued on this connection", dir, typ, chID, tokID)
			return
		}
		k := tk.client
		if dir == "s2c" {
			k = tk.server
		}
		plain, err = o.pol.OpenSym(fr, k, refcodec.Mode(o.cfg.Mode))
	}
	if err != nil {
		o.fail("chunk-does-not-open", dir+"-"+typ, "a %s %s chunk (%d bytes, policy %s mode %d, keys %d/%d bits) cannot be opened by the reference implementation: %v", dir, typ, len(fr), o.cfg.Policy, o.cfg.Mode, o.cfg.ClientBits, o.cfg.ServerBits, err)
		return
	}
	ch, err := refcodec.ParsePlainChunk(plain)
	if err != nil {
		o.fail("malformed-chunk", dir+"-"+typ, "opened chunk does not parse: %v", err)
		return
	}
	if typ == "OPN" && ch.ChunkType == 'F' {
		if _, svc, err := ua.DecodeService(ch.Body); err == nil {
			switch m := svc.(type) {
			case *ua.OpenSecureChannelRequest:
				o.nonceC[ch.RequestID] = m.ClientNonce
			case *ua.OpenSecureChannelResponse:
				tk := &tokenKeys{channelID: m.SecurityToken.ChannelID, tokenID: m.SecurityToken.TokenID, createdAt: o.s.Now(), lifetime: time.Duration(m.SecurityToken.RevisedLifetime) * time.Millisecond}
				if o.pol != nil {
					tk.client, tk.server = o.pol.DeriveKeys(o.nonceC[ch.RequestID], m.ServerNonce)
				}
				o.tokens = append(o.tokens, tk)
			}
		}
	}
	if o.OnPlain != nil {
		o.OnPlain(dir, ch)
	}
}

func le32(b []byte) uint32 {
	return uint32(b[0]) | uint32(b[1])<<8 | uint32(b[2])<<16 | uint32(b[3])<<24
}
