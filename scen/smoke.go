//go:build verif

package scen

import (
	"time"

	"github.com/gopcua/opcua"
	"github.com/gopcua/opcua/ua"

	"verif/sim"
)

// smoke: real client and server, a few reads/writes and a subscription. Used
// by the determinism self-test and as a throughput probe.
type smokeRun struct{ N int }

func (r *smokeRun) Sample() any       { return r }
func (r *smokeRun) Setup(s *sim.Sim)  { r.N = 2 + s.Plan.Intn(4); s.DrawPolicy() }
func (r *smokeRun) Finish(s *sim.Sim) {}
func (r *smokeRun) Main(s *sim.Sim) {
	e, err := startServer(s, func(e *env) { e.ns.AddNewVariableStringNode("x", int32(5)) })
	if err != nil {
		s.Fail("HARNESS", "setup", "server", "%v", err)
		return
	}
	defer e.stop()
	c, err := newClient(opcua.Lifetime(10 * time.Second))
	if err != nil {
		s.Fail("HARNESS", "setup", "client", "%v", err)
		return
	}
	if err := c.Connect(e.ctx); err != nil {
		s.Fail("HARNESS", "setup", "connect", "%v", err)
		return
	}
	done := make(chan struct{}, 8)
	for w := 0; w < r.N; w++ {
		go func(w int) {
			for i := 0; i < 4; i++ {
				if w%2 == 0 {
					c.Read(e.ctx, readReq(e.nodeID("x")))
				} else {
					c.Write(e.ctx, writeReq(e.nodeID("x"), int32(w*100+i)))
				}
			}
			done <- struct{}{}
		}(w)
	}
	ch := make(chan *opcua.PublishNotificationData, 100)
	sub, err := c.Subscribe(e.ctx, &opcua.SubscriptionParameters{Interval: 100 * time.Millisecond}, ch)
	if err != nil {
		s.Fail("HARNESS", "setup", "subscribe", "%v", err)
		return
	}
	sub.Monitor(e.ctx, ua.TimestampsToReturnBoth, opcua.NewMonitoredItemCreateRequestWithDefaults(e.nodeID("x"), ua.AttributeIDValue, 7))
	for w := 0; w < r.N; w++ {
		<-done
	}
	<-ch
	time.Sleep(12 * time.Second)
	sub.Cancel(e.ctx)
	c.Close(e.ctx)
}

func init() {
	Register(&Scenario{Name: "smoke", Props: []string{"HARNESS"}, Horizon: 2 * time.Minute, New: func() Run { return &smokeRun{} }, StuckProperty: "HARNESS"})
}
