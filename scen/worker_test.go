//go:build verif

//go:debug randseednop=0

package scen

import (
	"bufio"
	"encoding/json"
	"fmt"
	"os"
	"strconv"
	"strings"
	"testing"

	"verif/sim"
)

// Replay is the on-disk replay file.
type Replay struct {
	Property  string   `json:"property"`
	Scenario  string   `json:"scenario"`
	Seed      uint64   `json:"seed"`
	PlanTape  []uint32 `json:"plan_tape"`
	SchedTape []uint32 `json:"sched_tape"`
	Class     string   `json:"class"`
	Detail    string   `json:"detail,omitempty"`
	Trace     string   `json:"trace,omitempty"`
}

// TestWorker executes runs as instructed by the environment:
//
//	VERIF_SCEN   scenario name
//	VERIF_SEEDS  start:count:stride
//	VERIF_REPLAY path of a replay file (overrides VERIF_SEEDS)
//	VERIF_JOBS   read "seed" / replay-json lines from stdin instead
//
// Output protocol on stdout: "@@RUN <seed>" before, "@@RES <json>" after each run.
func TestWorker(t *testing.T) {
	name := os.Getenv("VERIF_SCEN")
	if name == "" {
		t.Skip("no VERIF_SCEN")
	}
	out := bufio.NewWriter(os.Stdout)
	emit := func(r Result) {
		b, _ := json.Marshal(r)
		fmt.Fprintf(out, "@@RES %s\n", b)
		out.Flush()
	}
	if os.Getenv("VERIF_JOBS") != "" {
		// each stdin line is a Replay JSON (tapes may be empty = fresh run of that seed)
		sc := bufio.NewScanner(os.Stdin)
		sc.Buffer(make([]byte, 1<<20), 1<<28)
		for sc.Scan() {
			var rp Replay
			if err := json.Unmarshal(sc.Bytes(), &rp); err != nil {
				t.Fatalf("bad job: %v", err)
			}
			s := Lookup(rp.Scenario)
			if s == nil {
				t.Fatalf("unknown scenario %q", rp.Scenario)
			}
			fmt.Fprintf(out, "@@RUN %d\n", rp.Seed)
			out.Flush()
			var plan, sched *sim.Tape
			if rp.PlanTape != nil || rp.SchedTape != nil {
				plan, sched = sim.ReplayTape(rp.PlanTape), sim.ReplayTape(rp.SchedTape)
			} else {
				plan, sched = sim.NewTape(rp.Seed, 1), sim.NewTape(rp.Seed, 2)
			}
			r := Execute(t, s, rp.Seed, plan, sched, true)
			r.PlanTape, r.SchedTape = plan.Out, sched.Out
			emit(r)
		}
		return
	}
	s := Lookup(name)
	if s == nil {
		t.Fatalf("unknown scenario %q (have %v)", name, Names())
	}
	if p := os.Getenv("VERIF_REPLAY"); p != "" {
		b, err := os.ReadFile(p)
		if err != nil {
			t.Fatal(err)
		}
		var rp Replay
		if err := json.Unmarshal(b, &rp); err != nil {
			t.Fatal(err)
		}
		fmt.Fprintf(out, "@@RUN %d\n", rp.Seed)
		out.Flush()
		emit(Execute(t, s, rp.Seed, sim.ReplayTape(rp.PlanTape), sim.ReplayTape(rp.SchedTape), true))
		return
	}
	parts := strings.Split(os.Getenv("VERIF_SEEDS"), ":")
	if len(parts) != 3 {
		t.Fatalf("VERIF_SEEDS must be start:count:stride")
	}
	start, _ := strconv.ParseUint(parts[0], 10, 64)
	count, _ := strconv.ParseUint(parts[1], 10, 64)
	stride, _ := strconv.ParseUint(parts[2], 10, 64)
	for i := uint64(0); i < count; i++ {
		seed := start + i*stride
		fmt.Fprintf(out, "@@RUN %d\n", seed)
		out.Flush()
		emit(Execute(t, s, seed, sim.NewTape(seed, 1), sim.NewTape(seed, 2), i < 3))
	}
}
