#!/bin/bash
# determinism self-test: selftest.sh <scenario> <nseeds> [procs]
# runs the same seeds in <procs> concurrent worker processes (default 4, all on the
# same seeds) and reports seeds whose trace hash differs between processes.
export GOFLAGS=-mod=mod GOPROXY=off GOSUMDB=off GOTOOLCHAIN=local
cd /verif
sc=$1; n=${2:-50}; procs=${3:-4}
bin=.build/dev/scen.test
[ -n "$NOBUILD" ] || NOBUILD= ./runo.sh smoke 1:0:1 >/dev/null 2>&1
tmp=$(mktemp -d /tmp/selftest-XXXX)
for p in $(seq 1 $procs); do
  gm=1
  ( VERIF_SCEN=$sc VERIF_SEEDS=${START:-1000}:$n:1 GOMAXPROCS=$gm $bin -test.cpu 1 -test.timeout 1h -test.run TestWorker 2>/dev/null | grep '^@@RES' | python3 -c "
import sys,json
for l in sys.stdin:
    r=json.loads(l[6:]); print(r.get('seed'), r.get('trace'), len(r.get('violations') or []))" > $tmp/$p.txt ) &
done
wait
bad=0
for p in $(seq 2 $procs); do
  if ! diff -q $tmp/1.txt $tmp/$p.txt >/dev/null; then bad=1; diff $tmp/1.txt $tmp/$p.txt | head -6; fi
done
echo "selftest $sc: seeds=$n procs=$procs lines=$(wc -l < $tmp/1.txt) nondeterministic=$bad"
rm -rf $tmp
exit $bad
