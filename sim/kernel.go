//go:build verif

// Package sim is the deterministic simulator: a seeded scheduler that owns
// every goroutine hand-off of the code under test (through simhook), the
// fake clock (testing/synctest) and the only network the code sees (Net).
package sim

import (
	"bytes"
	"fmt"
	"hash"
	"hash/fnv"
	"math/rand/v2"
	"os"
	"regexp"
	"runtime"
	"sort"
	"strconv"
	"strings"
	"sync"
	"sync/atomic"
	"testing/synctest"
	"time"

	"github.com/gopcua/opcua/simhook"
)

// Tape is a recorded / replayed sequence of bounded integer choices.
type Tape struct {
	rng    *rand.Rand
	in     []uint32
	pos    int
	Out    []uint32
	replay bool
}

func splitmix(x uint64) uint64 {
	x += 0x9e3779b97f4a7c15
	x = (x ^ (x >> 30)) * 0xbf58476d1ce4e5b9
	x = (x ^ (x >> 27)) * 0x94d049bb133111eb
	return x ^ (x >> 31)
}

func NewTape(seed, stream uint64) *Tape {
	return &Tape{rng: rand.New(rand.NewPCG(splitmix(seed), splitmix(seed^(stream*0x9e3779b97f4a7c15))))}
}

func ReplayTape(in []uint32) *Tape { return &Tape{in: in, replay: true} }

// Intn returns a value in [0,n). n<=1 consumes nothing.
func (t *Tape) Intn(n int) int {
	if n <= 1 {
		return 0
	}
	var v int
	if t.replay {
		if t.pos < len(t.in) {
			v = int(t.in[t.pos] % uint32(n))
			t.pos++
		}
	} else {
		v = t.rng.IntN(n)
	}
	t.Out = append(t.Out, uint32(v))
	return v
}

// Replaying reports whether the tape is a replay.
func (t *Tape) Replaying() bool { return t.replay }

// next returns the replayed value for a decision made by a policy.
func (t *Tape) decide(n int, policy func() int) int {
	if n <= 1 {
		return 0
	}
	var v int
	if t.replay {
		if t.pos < len(t.in) {
			v = int(t.in[t.pos] % uint32(n))
			t.pos++
		}
	} else {
		v = policy()
	}
	t.Out = append(t.Out, uint32(v))
	return v
}

func (t *Tape) Bool() bool               { return t.Intn(2) == 1 }
func (t *Tape) Range(lo, hi int) int     { return lo + t.Intn(hi-lo+1) }
func (t *Tape) Chance(num, den int) bool { return t.Intn(den) < num }
func Pick[T any](t *Tape, xs ...T) T     { return xs[t.Intn(len(xs))] }

// Violation describes a property violation found in a run.
type Violation struct {
	Property string `json:"property"`
	Kind     string `json:"kind"`
	Sig      string `json:"sig"`
	Detail   string `json:"detail"`
	Step     int    `json:"step"`
	SimTime  string `json:"sim_time"`
}

func (v Violation) Class() string { return v.Property + "|" + v.Kind + "|" + v.Sig }

type parked struct {
	slowChecked bool
	label       string
	gid         int64
	rel         chan int
	choose      int // >0: wants a choice in [0,choose)
	where       string
}

// Action is a simulator-side event (fault, scripted step) that becomes
// enabled when Ready returns true.
type Action struct {
	Name  string
	At    time.Duration // earliest sim time (since start)
	Ready func() bool   // optional extra trigger
	Do    func()
	done  bool
}

// Policy parameters of the scheduler, drawn per run.
type Policy struct {
	Kind        int // 0 uniform, 1 run-to-block, 2 pct, 3 delivery-first, 4 goroutine-first
	StickPct    int
	ChangeEvery int
}

type Sim struct {
	Seed  uint64
	Plan  *Tape
	Sched *Tape
	Net   *Net

	Horizon  time.Duration
	MaxSteps int

	Probes map[string]int
	Faults map[string]int
	Info   map[string]any

	start  time.Time
	rootG  int64
	parkCh chan *parked
	parked []*parked
	wakeCh chan struct{}

	steps     int
	trace     hash.Hash64
	traceOn   bool
	evseq     atomic.Uint64
	mu        sync.Mutex
	viol      []Violation
	failed    atomic.Bool
	stopped   atomic.Bool
	bypass    atomic.Int32
	teardown  atomic.Bool
	free      bool // race mode
	actions   []*Action
	invariant func() // called after every quiescence

	policy  Policy
	polRng  *rand.Rand
	lastGid int64
	prio    map[int64]int
	slowGid map[int64]time.Time
	// "slow node" fault: a goroutine that arrives at a scheduling point whose
	// label SlowMatch accepts is held there for one of SlowDurs (fake time) with
	// probability SlowPermille/1000, at most SlowMax times per run. Drawn from
	// the schedule tape, so it replays and shrinks like every other choice.
	SlowPermille int
	SlowMax      int
	SlowDurs     []time.Duration
	SlowMatch    func(label string) bool
	// SlowWhere, if set, is consulted instead of SlowMatch with the chain of calling
	// functions of the parked goroutine (innermost first, "a<b<c"), so that a fault can
	// aim at a lock acquisition inside one particular function
	SlowWhere func(label, where string) bool
	slowCount int
	labels    map[string]int
	nontriv   atomic.Bool
	finished  bool
	TimedOut  bool
	StepsOut  bool
	End       time.Duration // simulated time at which the scheduler stopped
	StuckDump string        // goroutine stacks taken when the run ended unfinished
}

func goid() int64 {
	var buf [64]byte
	n := runtime.Stack(buf[:], false)
	f := bytes.Fields(buf[:n])
	id, _ := strconv.ParseInt(string(f[1]), 10, 64)
	return id
}

// New creates a simulator. Must be followed by Run inside a synctest bubble.
func New(seed uint64, plan, sched *Tape) *Sim {
	s := &Sim{
		Seed:     seed,
		Plan:     plan,
		Sched:    sched,
		Horizon:  10 * time.Minute,
		MaxSteps: 200000,
		Probes:   map[string]int{},
		Faults:   map[string]int{},
		Info:     map[string]any{},
		trace:    fnv.New64a(),
		traceOn:  os.Getenv("VERIF_TRACE") != "",
		polRng:   rand.New(rand.NewPCG(seed, 0x5eed)),
		prio:     map[int64]int{},
		slowGid:  map[int64]time.Time{},
		labels:   map[string]int{},
	}
	s.Net = newNet(s)
	return s
}

// SetPolicy draws the scheduling policy from the plan tape.
func (s *Sim) DrawPolicy() {
	s.policy.Kind = s.Plan.Intn(5)
	s.policy.StickPct = Pick(s.Plan, 50, 80, 95, 99)
	s.policy.ChangeEvery = Pick(s.Plan, 20, 100, 500)
	s.Info["policy"] = s.policy
}

func (s *Sim) SetPolicy(p Policy) { s.policy = p }

// Now is simulated time since the start of the run.
func (s *Sim) Now() time.Duration { return time.Since(s.start) }

// Event returns the next global event sequence number.
func (s *Sim) Event() uint64 { return s.evseq.Add(1) }

// Probe counts a reach probe.
func (s *Sim) Probe(name string) {
	s.mu.Lock()
	s.Probes[name]++
	s.mu.Unlock()
}

// ProbeCount returns how often a probe was hit so far.
func (s *Sim) ProbeCount(name string) int {
	s.mu.Lock()
	defer s.mu.Unlock()
	return s.Probes[name]
}

// Fault counts a fault that actually fired.
func (s *Sim) Fault(name string) {
	s.mu.Lock()
	s.Faults[name]++
	s.mu.Unlock()
}

// Nontrivial marks the run as non-trivial by the scenario's rule.
func (s *Sim) Nontrivial() { s.nontriv.Store(true) }

func (s *Sim) IsNontrivial() bool { return s.nontriv.Load() }

// Fail records a violation; the run stops at the next scheduling step.
func (s *Sim) Fail(property, kind, sig, format string, args ...any) {
	if s.stopped.Load() && goid() != s.rootG {
		// after the scheduler stopped the network is torn down; whatever
		// application goroutines observe then is not part of the run
		return
	}
	s.mu.Lock()
	s.viol = append(s.viol, Violation{
		Property: property, Kind: kind, Sig: sig,
		Detail:  fmt.Sprintf(format, args...),
		Step:    s.steps,
		SimTime: s.Now().String(),
	})
	s.mu.Unlock()
	s.failed.Store(true)
	if !s.stopped.Load() {
		s.Wake()
	}
}

// AdoptRoot makes the calling goroutine the one whose Fail calls count after the
// run has stopped (history checks that run outside the bubble, e.g. porcupine).
func (s *Sim) AdoptRoot() { s.rootG = goid() }

func (s *Sim) Failed() bool { return s.failed.Load() }

func (s *Sim) Violations() []Violation {
	s.mu.Lock()
	defer s.mu.Unlock()
	return append([]Violation(nil), s.viol...)
}

func (s *Sim) Steps() int            { return s.steps }
func (s *Sim) TraceHash() uint64     { return s.trace.Sum64() }
func (s *Sim) SetInvariant(f func()) { s.invariant = f }

// Wake makes the root loop re-evaluate.
func (s *Sim) Wake() {
	select {
	case s.wakeCh <- struct{}{}:
	default:
	}
}

// AddAction registers a simulator-side action.
func (s *Sim) AddAction(a *Action) {
	s.mu.Lock()
	s.actions = append(s.actions, a)
	free := s.free
	s.mu.Unlock()
	if free {
		s.fireFree(a)
		return
	}
	s.Wake()
}

// Free reports whether the run is in race mode (no central scheduler).
func (s *Sim) Free() bool { return s.free }

// After registers an action at sim time now+d.
func (s *Sim) After(d time.Duration, name string, f func()) {
	s.AddAction(&Action{Name: name, At: s.Now() + d, Do: f})
}

// NoSched runs f with scheduling points disabled. Only for single-threaded
// construction phases (e.g. building a server), where thousands of
// uncontended lock acquisitions would otherwise be scheduling steps.
func (s *Sim) NoSched(f func()) {
	s.bypass.Add(1)
	defer s.bypass.Add(-1)
	f()
}

// Park implements simhook.Scheduler.
func (s *Sim) Park(label string) {
	if s.stopped.Load() || s.bypass.Load() > 0 || s.free {
		return // (free-running race mode has no scheduler to park with)
	}
	g := goid()
	if g == s.rootG {
		return
	}
	if label != "mu.Lock" && label != "rw.Lock" && label != "rw.RLock" {
		s.mu.Lock()
		s.labels[label]++
		s.mu.Unlock()
	}
	p := &parked{label: label, gid: g, rel: make(chan int, 1)}
	if s.traceOn || s.SlowWhere != nil {
		p.where = callerChain()
	}
	s.parkCh <- p
	<-p.rel
}

func callerChain() string {
	pc := make([]uintptr, 12)
	n := runtime.Callers(3, pc)
	fr := runtime.CallersFrames(pc[:n])
	var out []string
	for {
		f, more := fr.Next()
		if !strings.Contains(f.Function, "simhook.") && !strings.Contains(f.Function, "verif/sim.") {
			fn := f.Function
			if i := strings.LastIndex(fn, "/"); i >= 0 {
				fn = fn[i+1:]
			}
			out = append(out, fn)
		}
		if !more || len(out) >= 4 {
			break
		}
	}
	return strings.Join(out, "<")
}

// Label returns how often a named yield point was reached.
func (s *Sim) Label(label string) int {
	s.mu.Lock()
	defer s.mu.Unlock()
	return s.labels[label]
}

// Choose implements simhook.Scheduler.
func (s *Sim) Choose(label string, n int) int {
	if s.stopped.Load() || n <= 1 || s.bypass.Load() > 0 {
		return 0
	}
	g := goid()
	if g == s.rootG {
		return 0
	}
	p := &parked{label: label, gid: g, rel: make(chan int, 1), choose: n}
	s.parkCh <- p
	return <-p.rel
}

// Yield lets harness goroutines offer a scheduling point.
func (s *Sim) Yield(label string) { s.Park(label) }

func (s *Sim) drain() {
	for {
		select {
		case p := <-s.parkCh:
			s.parked = append(s.parked, p)
		default:
			return
		}
	}
}

type enabledEv struct {
	kind int // 0 goroutine, 1 delivery, 2 action
	p    *parked
	pi   int
	d    *Dir
	a    *Action
}

// Teardown freezes the trace hash: what follows is the scenario's own
// clean-up (closing clients and servers with cancelled contexts), in which
// several selects of the code under test have more than one ready case and
// the Go runtime, not the scheduler, picks one. Verdicts are final by then.
func (s *Sim) Teardown() { s.teardown.Store(true) }

func (s *Sim) tracef(format string, args ...any) {
	if !s.teardown.Load() {
		fmt.Fprintf(s.trace, format, args...)
	}
	if s.traceOn {
		fmt.Fprintf(os.Stderr, "T %6d %12v "+format+"\n", append([]any{s.steps, s.Now()}, args...)...)
	}
}

// Tracef adds a scenario-level event to the trace (and its hash).
func (s *Sim) Tracef(format string, args ...any) {
	s.mu.Lock()
	s.tracef(format, args...)
	s.mu.Unlock()
}

func (s *Sim) enabled(now time.Duration) []enabledEv {
	var ev []enabledEv
	sort.SliceStable(s.parked, func(i, j int) bool { return s.parked[i].gid < s.parked[j].gid })
	wall := time.Now()
	for i, p := range s.parked {
		if !p.slowChecked {
			p.slowChecked = true
			if s.SlowPermille > 0 && s.slowCount < s.SlowMax && len(s.SlowDurs) > 0 && ((s.SlowWhere != nil && s.SlowWhere(p.label, p.where)) || (s.SlowWhere == nil && s.SlowMatch != nil && s.SlowMatch(p.label))) {
				if s.Sched.Intn(1000) < s.SlowPermille {
					d := s.SlowDurs[s.Sched.Intn(len(s.SlowDurs))]
					s.slowGid[p.gid] = wall.Add(d)
					s.slowCount++
					s.Fault("slow-goroutine")
					s.tracef("slow %s %v", p.label, d)
				}
			}
		}
		if until, ok := s.slowGid[p.gid]; ok {
			if wall.Before(until) {
				continue
			}
			delete(s.slowGid, p.gid)
		}
		ev = append(ev, enabledEv{kind: 0, p: p, pi: i})
	}
	for _, d := range s.Net.dueDirs() {
		ev = append(ev, enabledEv{kind: 1, d: d})
	}
	s.mu.Lock()
	for _, a := range s.actions {
		if !a.done && a.At <= now && (a.Ready == nil || a.Ready()) {
			ev = append(ev, enabledEv{kind: 2, a: a})
		}
	}
	s.mu.Unlock()
	return ev
}

func (s *Sim) pick(ev []enabledEv) int {
	n := len(ev)
	return s.Sched.decide(n, func() int {
		r := s.polRng
		switch s.policy.Kind {
		case 1: // run to block: stick with the goroutine that ran last
			if r.IntN(100) < s.policy.StickPct {
				for i, e := range ev {
					if e.kind == 0 && e.p.gid == s.lastGid {
						return i
					}
				}
			}
		case 2: // pct: highest priority goroutine first, priorities change rarely
			if s.policy.ChangeEvery > 0 && r.IntN(s.policy.ChangeEvery) == 0 {
				s.prio = map[int64]int{}
			}
			best, bi := -1, -1
			for i, e := range ev {
				var key int64
				switch e.kind {
				case 0:
					key = e.p.gid
				case 1:
					key = -int64(e.d.id) - 1
				default:
					key = -1 << 40
				}
				pr, ok := s.prio[key]
				if !ok {
					pr = r.IntN(1 << 20)
					s.prio[key] = pr
				}
				if pr > best {
					best, bi = pr, i
				}
			}
			if bi >= 0 && r.IntN(100) < 90 {
				return bi
			}
		case 3: // deliveries first
			if r.IntN(100) < s.policy.StickPct {
				var c []int
				for i, e := range ev {
					if e.kind != 0 {
						c = append(c, i)
					}
				}
				if len(c) > 0 {
					return c[r.IntN(len(c))]
				}
			}
		case 4: // goroutines first
			if r.IntN(100) < s.policy.StickPct {
				var c []int
				for i, e := range ev {
					if e.kind == 0 {
						c = append(c, i)
					}
				}
				if len(c) > 0 {
					return c[r.IntN(len(c))]
				}
			}
		}
		return r.IntN(n)
	})
}

// SlowNode holds the next parked goroutine with the given gid for d.
func (s *Sim) slow(gid int64, d time.Duration) { s.slowGid[gid] = time.Now().Add(d) }

func (s *Sim) nextDue(now time.Duration) (time.Duration, bool) {
	var best time.Duration
	ok := false
	upd := func(t time.Duration) {
		if !ok || t < best {
			best, ok = t, true
		}
	}
	if t, has := s.Net.nextDue(); has {
		upd(t)
	}
	s.mu.Lock()
	for _, a := range s.actions {
		if !a.done && a.At > now {
			upd(a.At)
		}
	}
	s.mu.Unlock()
	wall := time.Now()
	for _, until := range s.slowGid {
		if until.After(wall) {
			upd(now + until.Sub(wall))
		}
	}
	return best, ok
}

// Run executes app on a fresh goroutine under the scheduler. It must be
// called from the root goroutine of a synctest bubble.
func (s *Sim) Run(app func()) {
	s.start = time.Now()
	s.rootG = goid()
	// channels must be created inside the bubble to block durably
	s.parkCh = make(chan *parked, 1<<16)
	s.wakeCh = make(chan struct{}, 1)
	simhook.Install(s)
	done := make(chan struct{})
	go func() {
		defer close(done)
		app()
	}()
	horizonT := time.NewTimer(s.Horizon)
	defer horizonT.Stop()
	for !s.finished {
		synctest.Wait()
		s.drain()
		s.Net.ingest()
		if s.invariant != nil {
			s.invariant()
		}
		if s.failed.Load() {
			break
		}
		now := s.Now()
		if now >= s.Horizon {
			s.TimedOut = true
			break
		}
		ev := s.enabled(now)
		if len(ev) > 0 {
			if s.steps >= s.MaxSteps {
				s.StepsOut = true
				break
			}
			k := s.pick(ev)
			e := ev[k]
			s.steps++
			if s.traceOn && os.Getenv("VERIF_DUMPSTEP") == fmt.Sprint(s.steps) {
				fmt.Fprintf(os.Stderr, "==== dump at step %d\n%s\n====\n", s.steps, GoroutineDump())
			}
			switch e.kind {
			case 0:
				s.parked = append(s.parked[:e.pi], s.parked[e.pi+1:]...)
				s.lastGid = e.p.gid
				v := 0
				if e.p.choose > 0 {
					v = s.Sched.Intn(e.p.choose)
				}
				s.tracef("g %s %d/%d c%d", e.p.label, k, len(ev), v)
				if s.traceOn {
					var gl []int64
					for _, x := range ev {
						if x.kind == 0 {
							gl = append(gl, x.p.gid)
						}
					}
					fmt.Fprintf(os.Stderr, "    gid=%d %s cand=%v\n", e.p.gid, e.p.where, gl)
				}
				e.p.rel <- v
			case 1:
				n := s.Net.deliver(e.d)
				s.tracef("d %d %d %d/%d", e.d.id, n, k, len(ev))
			case 2:
				e.a.done = true
				s.tracef("a %s %d/%d", e.a.Name, k, len(ev))
				e.a.Do()
			}
			continue
		}
		select {
		case <-done:
			s.finished = true
			continue
		default:
		}
		var timer <-chan time.Time
		var tm *time.Timer
		if t, ok := s.nextDue(now); ok {
			d := t - now
			if d < 0 {
				d = 0
			}
			tm = time.NewTimer(d)
			timer = tm.C
		}
		select {
		case p := <-s.parkCh:
			s.parked = append(s.parked, p)
		case <-s.wakeCh:
		case <-done:
			s.finished = true
		case <-timer:
		case <-horizonT.C:
		}
		if tm != nil {
			tm.Stop()
		}
	}
	s.End = s.Now()
	if !s.finished && !s.failed.Load() {
		s.StuckDump = GoroutineDump()
	}
	s.tracef("end %v", s.finished)
	s.Stop()
}

// freeSched is the scheduler of the race mode: no central hand-off (it would
// order everything and blind the race detector); every yield point sleeps a
// hash-derived number of fake nanoseconds to vary the interleaving.
type freeSched struct {
	seed uint64
	n    atomic.Uint64
}

func (f *freeSched) Park(label string) {
	x := splitmix(f.seed ^ f.n.Add(1)*0x9e3779b97f4a7c15 ^ uint64(len(label)))
	if d := x % 4; d > 0 {
		time.Sleep(time.Duration(d))
	}
}

func (f *freeSched) Choose(label string, n int) int {
	return int(splitmix(f.seed^f.n.Add(1)) % uint64(n))
}

// RunFree executes app without the central scheduler (race mode, C36): the
// network delivers at once, simulator actions fire on their own timers.
func (s *Sim) RunFree(app func()) {
	s.start = time.Now()
	s.rootG = goid()
	s.parkCh = make(chan *parked, 1)
	s.wakeCh = make(chan struct{}, 1)
	s.free = true
	s.Net.auto.Store(true)
	simhook.Install(&freeSched{seed: s.Seed})
	done := make(chan struct{})
	go func() {
		defer close(done)
		app()
	}()
	s.mu.Lock()
	acts := append([]*Action(nil), s.actions...)
	s.mu.Unlock()
	for _, a := range acts {
		s.fireFree(a)
	}
	select {
	case <-done:
		s.finished = true
	case <-time.After(s.Horizon):
		s.TimedOut = true
	}
	s.End = s.Now()
	s.stopped.Store(true)
	simhook.Install(nil)
	s.Net.shutdown()
	for i := 0; i < 20; i++ {
		synctest.Wait()
	}
}

func (s *Sim) fireFree(a *Action) {
	go func() {
		if d := a.At - s.Now(); d > 0 {
			time.Sleep(d)
		}
		if s.stopped.Load() {
			return
		}
		if a.Ready == nil || a.Ready() {
			a.Do()
		}
	}()
}

// Stop removes the scheduler: parked goroutines are released and run freely,
// the network switches to immediate delivery and then resets everything.
func (s *Sim) Stop() {
	if s.stopped.Swap(true) {
		return
	}
	simhook.Install(nil)
	s.drain()
	for _, p := range s.parked {
		p.rel <- 0
	}
	s.parked = nil
	s.Net.shutdown()
	// let everything settle; release stragglers that parked meanwhile
	for i := 0; i < 50; i++ {
		synctest.Wait()
		s.drain()
		if len(s.parked) == 0 {
			break
		}
		for _, p := range s.parked {
			p.rel <- 0
		}
		s.parked = nil
	}
}

// Finished reports whether the application goroutine returned.
func (s *Sim) Finished() bool { return s.finished }

var bubbleRe = regexp.MustCompile(`synctest bubble \d+`)

// GoroutineDump returns the stacks of all goroutines of the calling
// goroutine's bubble (leaked goroutines of earlier runs live in other
// bubbles and are not included).
func GoroutineDump() string {
	buf := make([]byte, 1<<24)
	n := runtime.Stack(buf, true)
	all := strings.Split(string(buf[:n]), "\n\n")
	if len(all) == 0 {
		return ""
	}
	hdr, _, _ := strings.Cut(all[0], "\n")
	tag := bubbleRe.FindString(hdr)
	if tag == "" {
		return string(buf[:n])
	}
	var out []string
	for _, g := range all {
		h, _, _ := strings.Cut(g, "\n")
		if strings.Contains(h, tag+"]") || strings.HasSuffix(strings.TrimSuffix(h, ":"), tag+"]") {
			out = append(out, g)
		}
	}
	return strings.Join(out, "\n\n")
}
