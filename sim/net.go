//go:build verif

package sim

import (
	"context"
	"encoding/binary"
	"errors"
	"io"
	"net"
	"os"
	"sort"
	"sync"
	"sync/atomic"
	"syscall"
	"time"

	"github.com/gopcua/opcua/uacp"
)

// Tap sees whole UACP frames written into a direction (re-framed by an
// independent framer) before they are scheduled for delivery, and returns
// the frames to put on the wire instead.
type Tap interface {
	Frame(d *Dir, frame []byte) [][]byte
}

// TapFunc adapts a function to Tap.
type TapFunc func(d *Dir, frame []byte) [][]byte

func (f TapFunc) Frame(d *Dir, frame []byte) [][]byte { return f(d, frame) }

type seg struct {
	data []byte
	due  time.Duration
	eof  bool
}

// Segmentation modes.
const (
	SegWhole    = iota // one write = one segment
	SegCoalesce        // everything due is delivered at once
	SegRandom          // 1..pending bytes
	SegTiny            // 1..16 bytes
	segModes
)

// Dir is one direction of a simulated connection.
type Dir struct {
	id   int
	Name string // "c2s" or "s2c"
	Conn *Conn
	net  *Net

	mu                  sync.Mutex
	pending             [][]byte
	inflight            []seg
	rbuf                []byte
	sig                 chan struct{}
	eofQueued, eof, rst bool
	rdClosed            bool // reader closed its end
	wrClosed            bool // writer closed its end
	brokenWrites        int
	Window              int // 0 = unlimited
	Blackhole           bool
	StallUntil          time.Duration
	Latency             time.Duration
	Jitter              time.Duration
	SegMode             int
	lastDue             time.Duration
	Tap                 Tap
	frbuf               []byte
	Written, Delivered  int64
	Observers           []func(frame []byte) // passive, see whole frames in write order
	obuf                []byte
	DeliveredObservers  []func(frame []byte) // see whole frames once fully delivered to the reader
	dbuf                []byte
}

// Conn is a simulated TCP connection.
type Conn struct {
	ID       int
	Addr     string
	C2S, S2C *Dir
	Client   *End
	Server   *End
	OpenedAt time.Duration
	Tag      string // free for scenarios
}

// End is one endpoint of a Conn; it implements net.Conn.
type End struct {
	conn   *Conn
	rd, wr *Dir
	local  simAddr
	remote simAddr

	mu     sync.Mutex
	closed bool
	rdl    time.Time
	wdl    time.Time
}

type simAddr string

func (a simAddr) Network() string { return "tcp" }
func (a simAddr) String() string  { return string(a) }

type Listener struct {
	net    *Net
	addr   string
	ch     chan *End
	closed chan struct{}
	once   sync.Once
}

// Net is the simulated network.
type Net struct {
	s  *Sim
	mu sync.Mutex

	listeners map[string]*Listener
	conns     []*Conn
	dirs      []*Dir
	auto      atomic.Bool // autonomous mode: immediate delivery, no scheduler

	// Refuse makes Dial fail with ECONNREFUSED even if a listener exists.
	refuse map[string]bool
	// hang makes Dial block until its context ends.
	hang map[string]bool

	// OnConn is called (on the dialing goroutine) for every new connection.
	OnConn func(c *Conn)

	// defaults for new connections
	DefLatency time.Duration
	DefJitter  time.Duration
	DefSegMode int
	DefWindow  int
	Dials      int
}

func newNet(s *Sim) *Net {
	return &Net{s: s, listeners: map[string]*Listener{}, refuse: map[string]bool{}, hang: map[string]bool{}}
}

// Install makes this network the one uacp uses.
func (n *Net) Install()   { uacp.SetSimNet(n) }
func (n *Net) Uninstall() { uacp.SetSimNet(nil) }

func (n *Net) SetRefuse(addr string, on bool) { n.mu.Lock(); n.refuse[addr] = on; n.mu.Unlock() }
func (n *Net) SetHang(addr string, on bool)   { n.mu.Lock(); n.hang[addr] = on; n.mu.Unlock() }

func opErr(op string, err error) error {
	return &net.OpError{Op: op, Net: "tcp", Err: err}
}

// Listen implements uacp.SimNetwork.
func (n *Net) Listen(hostport string) (uacp.SimListener, error) {
	n.mu.Lock()
	defer n.mu.Unlock()
	if l := n.listeners[hostport]; l != nil {
		return nil, opErr("listen", os.NewSyscallError("bind", syscall.EADDRINUSE))
	}
	l := &Listener{net: n, addr: hostport, ch: make(chan *End, 256), closed: make(chan struct{})}
	n.listeners[hostport] = l
	return l, nil
}

func (l *Listener) Accept() (net.Conn, error) {
	select {
	case <-l.closed:
		return nil, opErr("accept", net.ErrClosed)
	default:
	}
	select {
	case e := <-l.ch:
		return e, nil
	case <-l.closed:
		return nil, opErr("accept", net.ErrClosed)
	}
}

func (l *Listener) Close() error {
	l.once.Do(func() {
		close(l.closed)
		l.net.mu.Lock()
		if l.net.listeners[l.addr] == l {
			delete(l.net.listeners, l.addr)
		}
		l.net.mu.Unlock()
		// connections waiting in the backlog are reset
		for {
			select {
			case e := <-l.ch:
				e.conn.Reset()
			default:
				return
			}
		}
	})
	return nil
}

func (l *Listener) Addr() net.Addr { return simAddr(l.addr) }

// Dial implements uacp.SimNetwork.
func (n *Net) Dial(ctx context.Context, hostport string) (net.Conn, error) {
	n.mu.Lock()
	n.Dials++
	l := n.listeners[hostport]
	refuse := n.refuse[hostport]
	hang := n.hang[hostport]
	n.mu.Unlock()
	if hang {
		<-ctx.Done()
		return nil, opErr("dial", os.ErrDeadlineExceeded)
	}
	if l == nil || refuse {
		return nil, opErr("dial", os.NewSyscallError("connect", syscall.ECONNREFUSED))
	}
	c := n.newConn(hostport)
	select {
	case <-l.closed:
		return nil, opErr("dial", os.NewSyscallError("connect", syscall.ECONNREFUSED))
	case l.ch <- c.Server:
	default:
		return nil, opErr("dial", os.NewSyscallError("connect", syscall.ECONNREFUSED))
	}
	if n.OnConn != nil {
		n.OnConn(c)
	}
	return c.Client, nil
}

// Pipe creates a connection without a listener.
func (n *Net) Pipe(name string) *Conn { return n.newConn(name) }

func (n *Net) newConn(addr string) *Conn {
	n.mu.Lock()
	defer n.mu.Unlock()
	c := &Conn{ID: len(n.conns), Addr: addr, OpenedAt: n.s.Now()}
	mk := func(name string) *Dir {
		d := &Dir{id: len(n.dirs), Name: name, Conn: c, net: n, sig: make(chan struct{}),
			Latency: n.DefLatency, Jitter: n.DefJitter, SegMode: n.DefSegMode, Window: n.DefWindow}
		n.dirs = append(n.dirs, d)
		return d
	}
	c.C2S, c.S2C = mk("c2s"), mk("s2c")
	ca, sa := simAddr("client:"+itoa(c.ID)), simAddr(addr)
	c.Client = &End{conn: c, rd: c.S2C, wr: c.C2S, local: ca, remote: sa}
	c.Server = &End{conn: c, rd: c.C2S, wr: c.S2C, local: sa, remote: ca}
	n.conns = append(n.conns, c)
	return c
}

func itoa(i int) string {
	if i == 0 {
		return "0"
	}
	var b []byte
	for i > 0 {
		b = append([]byte{byte('0' + i%10)}, b...)
		i /= 10
	}
	return string(b)
}

// Conns returns all connections made so far.
func (n *Net) Conns() []*Conn {
	n.mu.Lock()
	defer n.mu.Unlock()
	return append([]*Conn(nil), n.conns...)
}

func (d *Dir) broadcast() {
	close(d.sig)
	d.sig = make(chan struct{})
}

// ID returns the direction's ordinal.
func (d *Dir) ID() int { return d.id }

func (e *End) Read(b []byte) (int, error) {
	d := e.rd
	for {
		e.mu.Lock()
		closed, dl := e.closed, e.rdl
		e.mu.Unlock()
		d.mu.Lock()
		switch {
		case closed:
			d.mu.Unlock()
			return 0, opErr("read", net.ErrClosed)
		case len(d.rbuf) > 0:
			n := copy(b, d.rbuf)
			d.rbuf = d.rbuf[n:]
			if d.Window > 0 {
				d.broadcast() // writer may continue
			}
			d.mu.Unlock()
			if d.Window > 0 {
				d.net.s.Wake()
			}
			return n, nil
		case d.rst:
			d.mu.Unlock()
			return 0, opErr("read", os.NewSyscallError("read", syscall.ECONNRESET))
		case d.eof:
			d.mu.Unlock()
			return 0, io.EOF
		}
		sig := d.sig
		d.mu.Unlock()
		if !dl.IsZero() {
			w := time.Until(dl)
			if w <= 0 {
				return 0, opErr("read", os.ErrDeadlineExceeded)
			}
			t := time.NewTimer(w)
			select {
			case <-sig:
			case <-t.C:
			}
			t.Stop()
		} else {
			<-sig
		}
	}
}

func (e *End) Write(b []byte) (int, error) {
	d := e.wr
	if len(b) == 0 {
		return 0, nil
	}
	for {
		e.mu.Lock()
		closed, dl := e.closed, e.wdl
		e.mu.Unlock()
		d.mu.Lock()
		switch {
		case closed:
			d.mu.Unlock()
			return 0, opErr("write", net.ErrClosed)
		case d.rst:
			d.mu.Unlock()
			return 0, opErr("write", os.NewSyscallError("write", syscall.ECONNRESET))
		case d.rdClosed:
			d.brokenWrites++
			n := d.brokenWrites
			d.mu.Unlock()
			if n > 1 {
				return 0, opErr("write", os.NewSyscallError("write", syscall.EPIPE))
			}
			return len(b), nil
		}
		if d.Window > 0 && d.queuedLocked() >= d.Window {
			sig := d.sig
			d.mu.Unlock()
			d.net.s.Fault("write-blocked-window-full")
			if !dl.IsZero() {
				w := time.Until(dl)
				if w <= 0 {
					return 0, opErr("write", os.ErrDeadlineExceeded)
				}
				t := time.NewTimer(w)
				select {
				case <-sig:
				case <-t.C:
				}
				t.Stop()
			} else {
				<-sig
			}
			continue
		}
		d.Written += int64(len(b))
		cp := append([]byte(nil), b...)
		if d.net.auto.Load() {
			d.rbuf = append(d.rbuf, cp...)
			d.broadcast()
			d.mu.Unlock()
			return len(b), nil
		}
		d.pending = append(d.pending, cp)
		d.mu.Unlock()
		d.net.s.Wake()
		return len(b), nil
	}
}

func (d *Dir) queuedLocked() int {
	n := len(d.rbuf)
	for _, p := range d.pending {
		n += len(p)
	}
	for _, s := range d.inflight {
		n += len(s.data)
	}
	return n
}

func (e *End) Close() error {
	e.mu.Lock()
	if e.closed {
		e.mu.Unlock()
		return opErr("close", net.ErrClosed)
	}
	e.closed = true
	e.mu.Unlock()
	// our reads fail now; the peer sees EOF after in-flight data
	e.rd.mu.Lock()
	e.rd.rdClosed = true
	e.rd.broadcast()
	e.rd.mu.Unlock()
	w := e.wr
	w.mu.Lock()
	w.wrClosed = true
	if w.net.auto.Load() {
		w.eof = true
		w.broadcast()
	} else if !w.eofQueued {
		w.eofQueued = true
		w.pending = append(w.pending, nil) // nil marks FIN
	}
	w.mu.Unlock()
	w.net.s.Wake()
	return nil
}

func (e *End) LocalAddr() net.Addr  { return e.local }
func (e *End) RemoteAddr() net.Addr { return e.remote }
func (e *End) SetDeadline(t time.Time) error {
	e.SetReadDeadline(t)
	return e.SetWriteDeadline(t)
}
func (e *End) SetReadDeadline(t time.Time) error {
	e.mu.Lock()
	e.rdl = t
	e.mu.Unlock()
	e.rd.mu.Lock()
	e.rd.broadcast()
	e.rd.mu.Unlock()
	return nil
}
func (e *End) SetWriteDeadline(t time.Time) error {
	e.mu.Lock()
	e.wdl = t
	e.mu.Unlock()
	return nil
}

// Closed reports whether this endpoint was closed locally.
func (e *End) Closed() bool { e.mu.Lock(); defer e.mu.Unlock(); return e.closed }

// Reset resets the connection: both ends get ECONNRESET, data in flight is lost.
func (c *Conn) Reset() {
	for _, d := range []*Dir{c.C2S, c.S2C} {
		d.mu.Lock()
		d.rst = true
		d.pending = nil
		d.inflight = nil
		d.rbuf = nil
		d.broadcast()
		d.mu.Unlock()
	}
}

// IsReset reports whether the connection was reset.
func (c *Conn) IsReset() bool { c.C2S.mu.Lock(); defer c.C2S.mu.Unlock(); return c.C2S.rst }

// Dead reports whether both endpoints are closed or the connection is reset.
func (c *Conn) Dead() bool {
	return c.IsReset() || (c.Client.Closed() && c.Server.Closed())
}

// Inject puts raw bytes into the direction as if the writer had written them.
func (d *Dir) Inject(b []byte) {
	d.mu.Lock()
	d.pending = append(d.pending, append([]byte(nil), b...))
	d.mu.Unlock()
	d.net.s.Wake()
}

// InjectNow puts bytes directly into the in-flight queue, bypassing the tap.
func (d *Dir) InjectRaw(b []byte) {
	d.mu.Lock()
	now := d.net.s.Now()
	due := now + d.Latency
	if due < d.lastDue {
		due = d.lastDue
	}
	d.lastDue = due
	d.inflight = append(d.inflight, seg{data: append([]byte(nil), b...), due: due})
	d.mu.Unlock()
	d.net.s.Wake()
}

// CloseWrite queues a FIN as if the writer had closed.
func (d *Dir) CloseWrite() {
	d.mu.Lock()
	if !d.eofQueued {
		d.eofQueued = true
		d.pending = append(d.pending, nil)
	}
	d.mu.Unlock()
	d.net.s.Wake()
}

// reframe splits a byte stream into UACP frames (independent framer: 8 byte
// header, little endian size at offset 4). Garbage sizes flush the buffer.
func reframe(buf *[]byte, in []byte, emit func([]byte)) {
	*buf = append(*buf, in...)
	for {
		b := *buf
		if len(b) < 8 {
			return
		}
		sz := int(binary.LittleEndian.Uint32(b[4:8]))
		if sz < 8 || sz > 1<<24 {
			emit(append([]byte(nil), b...))
			*buf = nil
			return
		}
		if len(b) < sz {
			return
		}
		emit(append([]byte(nil), b[:sz]...))
		*buf = b[sz:]
	}
}

// ingest moves newly written data into the in-flight queue (root goroutine).
func (n *Net) ingest() {
	n.mu.Lock()
	dirs := n.dirs
	n.mu.Unlock()
	now := n.s.Now()
	for _, d := range dirs {
		d.mu.Lock()
		if len(d.pending) == 0 {
			d.mu.Unlock()
			continue
		}
		pend := d.pending
		d.pending = nil
		tap := d.Tap
		obs := d.Observers
		d.mu.Unlock()
		var out []seg
		add := func(b []byte) {
			out = append(out, seg{data: b})
		}
		for _, p := range pend {
			if p == nil {
				out = append(out, seg{eof: true})
				continue
			}
			if len(obs) > 0 {
				reframe(&d.obuf, p, func(f []byte) {
					for _, o := range obs {
						o(f)
					}
				})
			}
			if tap != nil {
				reframe(&d.frbuf, p, func(f []byte) {
					for _, o := range tap.Frame(d, f) {
						add(o)
					}
				})
			} else {
				add(p)
			}
		}
		d.mu.Lock()
		if d.rst {
			d.mu.Unlock()
			continue
		}
		for _, sg := range out {
			if d.Blackhole && !sg.eof {
				n.s.Fault("blackhole-drop")
				continue
			}
			lat := d.Latency
			if d.Jitter > 0 {
				lat += time.Duration(n.s.Sched.Intn(8)) * d.Jitter / 8
			}
			if lat > 0 && !sg.eof {
				n.s.Fault("net-delayed-segment")
			}
			due := now + lat
			if due < d.lastDue {
				due = d.lastDue
			}
			d.lastDue = due
			sg.due = due
			d.inflight = append(d.inflight, sg)
		}
		d.mu.Unlock()
	}
}

func (n *Net) dueDirs() []*Dir {
	n.mu.Lock()
	dirs := n.dirs
	n.mu.Unlock()
	now := n.s.Now()
	var out []*Dir
	for _, d := range dirs {
		d.mu.Lock()
		if len(d.inflight) > 0 && d.inflight[0].due <= now && d.StallUntil <= now && !d.rst {
			if d.Window == 0 || len(d.rbuf) < d.Window || d.inflight[0].eof {
				out = append(out, d)
			}
		}
		d.mu.Unlock()
	}
	sort.SliceStable(out, func(i, j int) bool { return out[i].id < out[j].id })
	return out
}

func (n *Net) nextDue() (time.Duration, bool) {
	n.mu.Lock()
	dirs := n.dirs
	n.mu.Unlock()
	now := n.s.Now()
	var best time.Duration
	ok := false
	for _, d := range dirs {
		d.mu.Lock()
		if len(d.inflight) > 0 && !d.rst {
			t := d.inflight[0].due
			if d.StallUntil > t {
				t = d.StallUntil
			}
			if t > now && (!ok || t < best) {
				best, ok = t, true
			}
		}
		d.mu.Unlock()
	}
	return best, ok
}

// deliver moves bytes of d to the reader. Returns the number of bytes.
func (n *Net) deliver(d *Dir) int {
	d.mu.Lock()
	defer d.mu.Unlock()
	if len(d.inflight) == 0 {
		return 0
	}
	now := n.s.Now()
	first := &d.inflight[0]
	if first.eof {
		d.eof = true
		d.inflight = d.inflight[1:]
		d.broadcast()
		n.s.Fault("net-eof-delivered")
		return 0
	}
	take := 0
	switch d.SegMode {
	case SegWhole:
		take = len(first.data)
	case SegCoalesce:
		for _, sg := range d.inflight {
			if sg.eof || sg.due > now {
				break
			}
			take += len(sg.data)
		}
	case SegRandom:
		avail := 0
		for _, sg := range d.inflight {
			if sg.eof || sg.due > now {
				break
			}
			avail += len(sg.data)
		}
		// bias towards boundaries of interest
		switch n.s.Sched.Intn(4) {
		case 0:
			take = 1 + n.s.Sched.Intn(min(avail, 16))
		case 1:
			take = avail
		default:
			take = 1 + n.s.Sched.Intn(avail)
		}
	case SegTiny:
		take = 1 + n.s.Sched.Intn(min(len(first.data), 16))
	}
	if d.Window > 0 {
		room := d.Window - len(d.rbuf)
		if take > room {
			take = room
		}
	}
	moved := 0
	whole, split := 0, false
	for take > 0 && len(d.inflight) > 0 && !d.inflight[0].eof {
		sg := &d.inflight[0]
		k := min(take, len(sg.data))
		d.rbuf = append(d.rbuf, sg.data[:k]...)
		sg.data = sg.data[k:]
		take -= k
		moved += k
		if len(sg.data) == 0 {
			d.inflight = d.inflight[1:]
			whole++
		} else {
			split = true
		}
	}
	// counted when they fire: a delivery that ends inside a written unit
	// (frame split across TCP segments) or spans several written units
	if split {
		n.s.Fault("net-split-delivery")
	}
	if whole > 1 || (whole == 1 && split) {
		n.s.Fault("net-coalesced-delivery")
	}
	d.Delivered += int64(moved)
	if len(d.DeliveredObservers) > 0 && moved > 0 {
		chunk := d.rbuf[len(d.rbuf)-moved:]
		obs := d.DeliveredObservers
		reframe(&d.dbuf, chunk, func(f []byte) {
			for _, o := range obs {
				o(f)
			}
		})
	}
	d.broadcast()
	return moved
}

// Idle reports whether nothing is pending or in flight anywhere.
func (n *Net) Idle() bool {
	n.mu.Lock()
	dirs := n.dirs
	n.mu.Unlock()
	for _, d := range dirs {
		d.mu.Lock()
		busy := (len(d.pending) > 0 || len(d.inflight) > 0) && !d.rst
		d.mu.Unlock()
		if busy {
			return false
		}
	}
	return true
}

// shutdown switches to autonomous mode and resets every connection.
func (n *Net) shutdown() {
	n.mu.Lock()
	n.auto.Store(true)
	conns := n.conns
	var ls []*Listener
	for _, l := range n.listeners {
		ls = append(ls, l)
	}
	n.mu.Unlock()
	for _, c := range conns {
		c.Reset()
	}
	for _, l := range ls {
		l.Close()
	}
}

// ResetAll resets all live connections to addr (e.g. a server crash).
func (n *Net) ResetAll(addr string) int {
	k := 0
	for _, c := range n.Conns() {
		if c.Addr == addr && !c.Dead() {
			c.Reset()
			k++
		}
	}
	return k
}

// CloseListener closes the listener at addr, if any.
func (n *Net) CloseListener(addr string) {
	n.mu.Lock()
	l := n.listeners[addr]
	n.mu.Unlock()
	if l != nil {
		l.Close()
	}
}

var _ = errors.New
