#!/bin/bash
# dev helper: the fresh-restore style sweep: every quick command once, evidence removed first.
# usage: sweep.sh [ids...]   (env VERIF_SEED default 1)
export GOFLAGS=-mod=mod GOPROXY=off GOSUMDB=off GOTOOLCHAIN=local VERIF_SEED=${VERIF_SEED:-1} VERIF_TIER=quick
cd "$(dirname "$0")"
ids="$@"
[ -z "$ids" ] && ids=$(python3 -c "import json;print(' '.join(c['property_id'] for c in json.load(open('MANIFEST.json'))['checks']))")
mkdir -p /tmp/sweep
for id in $ids; do
  rm -f evidence/$id.json
  s=$(date +%s)
  ./bin/check $id --tier quick > /tmp/sweep/$id.log 2>&1
  rc=$?
  echo "$id rc=$rc wall=$(( $(date +%s)-s ))s $(grep -a '^check ' /tmp/sweep/$id.log | cut -c1-160)"
  grep -a "^VIOLATION\|^HARNESS\|^harness" /tmp/sweep/$id.log | head -3
done
