#!/bin/bash
# dev helper: thorough tier of every claimed check, one after the other.
# usage: thorough_all.sh <VERIF_SEED> <budget_s> [workers] [ids...]
export GOFLAGS=-mod=mod GOPROXY=off GOSUMDB=off GOTOOLCHAIN=local
cd "$(dirname "$0")"
seed=$1; budget=$2; workers=${3:-16}; shift 3
ids="$@"
[ -z "$ids" ] && ids=$(python3 -c "import json;print(' '.join(c['property_id'] for c in json.load(open('MANIFEST.json'))['checks']))")
mkdir -p bin && go1.26.8 build -o bin/check ./cmd/check && go1.26.8 build -o bin/overlaygen ./cmd/overlaygen || exit 2
for id in $ids; do
  VERIF_SEED=$seed VERIF_BUILD_TAG=t$seed ./bin/check $id --tier thorough --budget $budget --workers $workers > thorough-$seed-$id.log 2>&1
  echo "$id exit=$? $(tail -1 thorough-$seed-$id.log)"
  grep -h "^VIOLATION\|^harness\|did not reproduce" thorough-$seed-$id.log | head -5
done
