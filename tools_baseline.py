#!/usr/bin/env python3
"""Runs the repository's own suite (guard off, default toolchain) and checks that
every test in BASELINE.json's stable_pass passes."""
import json,subprocess,sys
import os
REPO=os.environ.get('REPO','/repo')
base=json.load(open('/root/.vp/BASELINE.json'))
want=set(base['stable_pass'])
p=subprocess.run('cd '+REPO+' && go test -json -vet=off -count=1 -timeout 25m ./...',shell=True,capture_output=True,text=True)
passed=set()
for l in p.stdout.splitlines():
    try: e=json.loads(l)
    except: continue
    if e.get('Action')=='pass' and e.get('Test'):
        passed.add(e['Package']+'::'+e['Test'])
missing=sorted(want-passed)
print('stable_pass',len(want),'passed now',len(want&passed),'missing',len(missing))
for m in missing[:20]: print('  MISSING',m)
sys.exit(1 if missing else 0)
