#!/bin/bash
# usage: tools_mutant.sh <patch-file> <ID> [extra check args]
# Applies the patch to a scratch worktree of /repo (outside /repo and /verif),
# runs the check against it via VERIF_REPO, removes the worktree and build output.
set -u
patch=$(realpath "$1"); id=$2; shift 2
d=$(mktemp -d /tmp/mut-XXXXXX)
git -C /repo worktree add -q --detach "$d/r" HEAD || exit 2
if ! git -C "$d/r" apply "$patch"; then echo "patch does not apply"; git -C /repo worktree remove --force "$d/r"; rm -rf "$d"; exit 2; fi
tag=mut$$
# the check rewrites evidence/<ID>.json; keep the unchanged tree's file
bak=$(mktemp); cp "/verif/evidence/$id.json" "$bak" 2>/dev/null
VERIF_REPO="$d/r" VERIF_BUILD_TAG=$tag /verif/bin/check "$id" "$@"
rc=$?
git -C /repo worktree remove --force "$d/r"; rm -rf "$d" "/verif/.build/$id-$tag"
if [ -s "$bak" ]; then cp "$bak" "/verif/evidence/$id.json"; fi; rm -f "$bak"
echo "mutant exit=$rc"
exit $rc
