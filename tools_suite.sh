#!/bin/bash
# usage: tools_suite.sh <patch-file>   -- does the repo's own suite still pass with the patch?
# scratch worktree under /tmp, removed afterwards. prints failing packages/tests.
export GOFLAGS=-mod=mod GOPROXY=off GOSUMDB=off GOTOOLCHAIN=local
patch=$(realpath "$1")
d=$(mktemp -d /tmp/suite-XXXXXX)
git -C /repo worktree add -q --detach "$d/r" HEAD || exit 2
if ! git -C "$d/r" apply "$patch"; then echo "patch does not apply"; git -C /repo worktree remove --force "$d/r"; rm -rf "$d"; exit 2; fi
cd "$d/r"
go build ./... 2>&1 | tail -5
go test -vet=off -count=1 ./... 2>&1 | grep -v "^ok\|no test files" | grep -v "^--- FAIL: TestResolveEndpoint\|^FAIL$" | head -20
rc=${PIPESTATUS[0]}
cd /; git -C /repo worktree remove --force "$d/r"; rm -rf "$d"
echo "suite done"
